"""C04 — change detection is exact: own writes invisible, diffs sound and complete.

Tie (D): the real `diffs.diff`, `diffs.reduce`, `DiffBaseStorage.build` (+ subclasses) and
`ProgressStorage.clear`, built with the real constructors, against the Lean model
(`Kopf/Model/C04_Diff.lean`, `C04_Essence.lean`) on seeded, type-directed inputs.
Oracle (Python only, never consults the model): apply the diff to old with an own applier and compare
with new; "empty iff nothing essential differs"; the essence is unchanged by kopf's own writes (taken
from the real `store/purge/touch`, `diffbase.store`, `finalizers.block_deletion/allow_deletion`,
applied with an own RFC 7386 merge) and changed by single foreign edits of spec/labels/annotations; what is configured to be
excluded (ignored_fields of the storage and of every nested storage, the storages' own fields) is not in the essence; the order
of the nested storages of a MultiDiffBaseStorage does not matter; the closed loop (store the last-handled state, take the patched
object as the next event) is a no-op on every configuration. A failure is attributed to an OPEN finding only if that finding can
explain it (F8 never explains a change AT a storage's own status field / exact annotation key: those are cleaned after the
handlers' fields are restored); failures are kept per class (FAIL_PER_CLASS), so a frequent known class never crowds out another.

White-box hunt (review/wb/C04): the LIFE of an object through the real `process_resource_causes` (creation -> quiet -> edit ->
quiet -> restart -> deletion; generated storages, handlers of every kind incl. other resources' and on.event fields; every patch
comes back as the next event): WHICH handlers are called (exactly those whose cause it is and whose (field of the) essence
changed, once), their kwargs on every cause (creation: old is None; resuming; deletion), what a finished cycle leaves behind (the
stored last-handled state IS the essence; own writes invisible; an event without an essential change calls nobody and sends nothing).
An exception raised inside kopf's sources is a verdict with the input as replay (never a skipped case or a crash of the check).
The decisions taken from the two essences (cause, store guard, field-handler selection) are modelled (Model/C04_Cycle.lean),
proved (Props/C04_Cycle.lean) and tied to what the real cycles do. Model and theorems follow kopf 8d1358b (store guard / field selection
by `old != new or diff`: former finding C04-F12) and 571b1b2 (a field hidden behind a non-mapping value is an absent field: former
finding C04-F13; the essence tie compares these configurations instead of counting them as raised).
"""
from __future__ import annotations

import ast
import base64
import copy
import hashlib
import json
import multiprocessing
import os
import random
from typing import Any

from .. import leanio
from ..core import Ctx

ID = "C04"
LEVEL = "proof"
STRENGTH = "partial"      # some clauses are proved only under a named guard or rest on oracle/tie only: see LEVEL_TEXT
ENGINES = ["lean-model", "purediff"]
LEVEL_TEXT = (
    "STRENGTH partial. Proved without guard, for ALL well-formed JSON values (mutual structural induction, no bound): diff_self_empty; "
    "diff_empty_iff (diff a b = [] iff a ≈ b; ≈ = JSON equality — `same` = diffs._same after kopf 6b2e53c, a boolean never equals a "
    "number — modulo null-valued keys; the one remaining deviation is finding C04-F10, null_absent_witness); apply_diff; reduce_exact "
    "(reduce (diff a b) path = diff (a at path) (b at path), every path) + reduce_apply / reduce_empty_iff; essence_wf; "
    "change_detected; bool_number_change_detected (former F7). "
    "Proved under a guard that IS the gap: status_invisible / status_removal_invisible (handler fields keep their own values), "
    "system_metadata_invisible (labels/annotations/ownerReferences unchanged; ownerReferences = C04-N2, "
    "adoption_loses_last_handled_witness), kopf_storage_write_invisible + store_marker_spec (the merged patch of a Kopf annotations "
    "storage incl. _store_marker after kopf ef55390 is invisible for EVERY prefix; instance kopf_dev_touch_invisible = former C04-N1), "
    "marked_annotation_invisible, prefix_group_invisible, first_custom_prefix_write_invisible, first_annotation_write_invisible — all "
    "under the reserved-prefix hypothesis whose failure is C04-F11 (marker_first_write_witness); handler fields covering own "
    "storage locations = F8 (extra_annotations_witness; former primary witness closed by kopf dbb523b: status_handler_touch_invisible, "
    "touch_field_cleaned = former C04-N3). "
    "Proved under a guard BROADER than any known gap: payload_exact / essence_injective_on_payload / payload_change_detected "
    "(AvoidKey), label_exact / annotation_exact / label_change_detected / ordinary_annotation_change_detected (MetaPlain), "
    "own_key_unmarked_invisible_partial (MetaPlain, kind present, annotations present before the write; every diff-base "
    "configuration incl. Multi after 55b75e2, instance multi_drs_own_key_invisible = former C04-F9). "
    "Every diff-base configuration incl. MultiDiffBaseStorage with ANY list of nested storages in ANY order, whatever the handlers' "
    "fields: nested_own_writes_cleaned_partial (the own field of every nested StatusDiffBaseStorage and every annotation name make_keys "
    "forms for the real body for every nested AnnotationsDiffBaseStorage are ABSENT from the essence — `build` only removes, each nested "
    "build refines the previous essence, the pseudo-body adds back only kind/ownerReferences; guard PseudoApart: the location is not "
    "kind…/metadata/metadata.ownerReferences…; `_partial` because the kopf-managed marker written along IS restored by a handler on "
    "metadata.annotations = F8, multi_marker_restored_witness), nested_ignored_fields_cleaned (ignored_fields of EVERY nested storage), "
    "multi_cleaning_order_independent (both hold for every permutation of the nested storages), instance "
    "multi_transitional_store_invisible (docs' Multi([Status, Annotations]) with handlers on status and metadata.annotations). "
    "The decisions of a processing cycle, taken from the two essences (Model/C04_Cycle.lean = causes.detect_changing_cause, the store "
    "guard of processing.process_changing_cause and registries._matches_field_changes as of kopf 8d1358b: `old != new or diff`): "
    "noop_is_stable, creation_settles, settled_after_store, update_is_stored (an UPDATE always passes the guard), update_settles (after "
    "ANY finished update cycle the next event is a NOOP: handling never triggers itself), store_only_on_difference (the guard lets a "
    "store through only when the two essences differ as JSON values: no re-store loop), field_handler_selected / field_handler_called "
    "(a non-empty diff narrowed to the handler's field selects the handler), unchanged_field_not_selected — ALL full strength, no "
    "guard (the former noBool guards of update_settles_partial / field_handler_selected_partial are gone with kopf 8d1358b); "
    "stale_last_handled_witness + field_handler_not_selected_witness are now regressions: the variants before 8d1358b (storeGuardPy / "
    "fieldChangedPy, Python's != alone = former finding C04-F12) fail on 1 -> true, today's do not. "
    "A handler's field hidden behind a non-mapping value (former finding C04-F13, kopf 571b1b2): hidden_field_is_absent (for EVERY "
    "storage configuration incl. Multi the essence is the one built without that handler's field), handler_fields_never_type_error; "
    "regressions of the variants before 571b1b2: hidden_field_raised_witness (one unguarded cherrypick raised), "
    "hidden_status_field_raised_witness (the two unguarded dicts.remove of StatusProgressStorage.clear raised). "
    "ONE storage object serving MANY objects (Model/C04_Shared.lean: `_detect_marked_prefixes` as a method of a long-lived instance — memory "
    "before, one object's annotation names -> memory after, prefixes; seeded change C04g): served_prefixes_history_independent, "
    "served_build_history_independent (what the storage builds for an object is what a fresh storage builds, after ANY history of served "
    "bodies), ordinary_annotation_kept_after_any_history — full strength for the code's policy (the set is local to the call); for the "
    "remembering variant remembering_hides_after_marked_object (EVERY annotation under a prefix any earlier object had marked is dropped, "
    "all histories) and remembered_prefixes_witness (example.com/team blue -> green on an unmarked object gives NO diff item after an "
    "object with example.com/kopf-managed went through; the code's policy gives one). "
    "Oracle/tie only (NO theorem): the composition fetch∘store (`diff(clear(fetch(body')), clear(build(body')))` after a real "
    "store/purge/touch: key names, marker and merge are modelled, the JSON encoding is not), what handlers receive in a cycle "
    "(real process_resource_causes with several handlers, field= and whole-object mixed, all lifecycles), statelessness of the "
    "storage objects (shared-instance sequences), everything outside MetaPlain, an `old` built under another handler set. "
    "Tie: differential run of the real diffs.diff/reduce, DiffBaseStorage.build (+Annotations/Status/Multi), ProgressStorage.clear "
    "(incl. touch_field), make_keys and _store_marker, built with the real constructors, against the model — on generated bodies, on "
    "the bodies after every own write and after the writes of OTHER Kopf operators' real storages (arbitrary prefixes), on one "
    "shared storage instance serving sequences of objects; handlers' kwargs in real cycles are tied to the model's reduce.")
TIE = ("D (differential: real diff/reduce/build/clear/make_keys vs. the Lean model, incl. post-write bodies and shared-storage "
       "sequences; the cause / the selected field handlers / the state stored by real processing cycles vs. the model's "
       "detect / selected / afterCycle) + constants read from the AST")
THEOREMS: list[tuple[str, str]] = []     # filled below from THEOREM_NAMES
RULE = ("seeded, type-directed: Kubernetes-shaped bodies (nesting <= 5, empty containers, nulls, unicode keys/values, "
        "booleans next to 0/1, annotation names with and without kopf prefixes/markers), b = 0..3 point mutations of a "
        "(or independent), field paths taken from either side or random; storage configurations from the real "
        "constructors x handler ids x own writes (incl. another Kopf operator's) x single foreign edits; sequences: one shared "
        "diff-base + progress storage serving Deployment / its ReplicaSet (annotations copied down) / plain object / other "
        "ReplicaSet in random orders, each compared with a fresh storage; MultiDiffBaseStorage cases of their own: 2-3 nested "
        "storages in every order (status-based first/middle/last/absent/twice, annotations with different prefixes and keys, "
        "ignored_fields on nested storages), handler fields that do / do not cover the nested storages' own locations, bodies "
        "carrying the nested storages' stored states, all orders of the nested storages compared, and on EVERY configuration the "
        "closed loop store -> next event -> must be a no-op (3 rounds); fields hidden behind non-mapping values (kopf 571b1b2): handler fields "
        "below a scalar/list/null of the body (their essence must equal the one built without them), the storages' own stanza "
        "overwritten with a non-mapping, one own field of a status storage hidden while the other is not (gen_hidden_case); lives of one object through the real process_resource_causes "
        "(10 diff-base x 10 progress storage configurations, 1-5 handlers @on.create/update/field/resume/delete with and without "
        "field= incl. status fields, @on.event(field=) and handlers of another resource, 4 lifecycles; edits: payload mutations, "
        "bool<->number only, status only, nothing essential, a field appears (also with a falsy value) / disappears; quiet probes: the "
        "same object, a system-metadata bump, a foreign status write, another Kopf operator's real writes; then an operator restart "
        "with the object unchanged or edited while down, then the deletion; in ~35 % of the lives the SAME operator (one registry, one settings "
        "object) also processes 1-2 MATES — objects of the same or another resource that another Kopf operator serves under a prefix P (real "
        "writes + marker) — before the creation / between creation and edit, while the main object carries ordinary P/... annotations that a "
        "user then edits: the whole-object handlers must be called once and get them in old/new with their exact values); a case is distinct by its canonical input and "
        "non-trivial when the diff is non-empty / the essence dropped or kept something / an error branch was hit")
TRUSTED = ["harness/props/c04.py: the Python oracle (own applier, own RFC 7386 merge, strict JSON equality)",
           "the configuration of the model is read off the real storage objects' attributes (prefix, key, v1, field, ignored_fields)",
           "blake2b key suffixes are computed by hashlib in the harness and passed to the model as a table"]
ASSUMPTIONS = ["numbers are integers (no floats in generated bodies)",
               "metadata.annotations is absent or a mapping (Kubernetes schema); other shapes answer `unmodelled` and are not generated",
               "annotations under a marked prefix are not 'ordinary annotations'; a user's annotation under the operator's own, not yet "
               "marked prefix is hidden by the first marker write (finding C04-F11, no exemption in the oracle)",
               "MultiDiffBaseStorage/MultiProgressStorage are modelled flat (no Multi inside Multi)",
               "floats, tuples, non-string keys and non-string annotation values are not generated (diff({'a':1},{'a':1.0}) is () on the real code)",
               "the last-handled annotation is a stored essence: garbage ('not json', '[]', 'null') makes _detect_causes raise or "
               "re-create (observation, not generated); an `old` built under another set of handler fields (operator restarted with an "
               "added @on.field) gives a spurious update (observation)",
               "label_exact/annotation_exact/…_change_detected and own_key_unmarked_invisible_partial assume MetaPlain: no handler "
               "field and no ignored/storage field starts with `metadata` (otherwise oracle + tie only)",
               "nested_own_writes_cleaned_partial / nested_ignored_fields_cleaned / multi_cleaning_order_independent assume PseudoApart for "
               "status and ignored fields: the location is not kind…, metadata as a whole, or metadata.ownerReferences… (the pseudo-body of "
               "MultiDiffBaseStorage.build re-adds exactly these); they state ABSENCE of the location from the essence, the kopf-managed "
               "marker is not covered (F8, multi_marker_restored_witness)",
               "an oracle failure is attributed to the open finding F8 only when no changed location of the essence is at/under a location "
               "the storage's own store/purge/touch wrote (marker excepted); the order-of-nested-storages oracle compares only when every "
               "order builds without an exception (an ignored `status` before/after a status storage on a scalar status may raise in one order only)",
               "the shared-storage sequence oracle compares with a fresh storage per object: it sees state carried between objects, "
               "not a defect present in fresh and shared storages alike (those are the per-body oracle's subject)",
               "`served` cases and mates: a user's annotation under the operator's OWN prefix is not generated there (finding C04-F11's class, the pure "
               "level's subject); 'ordinary annotation' is judged by the object's own annotations (marker on THIS object / kopf.zalando.org / "
               "a sub-domain of it), never by what other objects carry",
               "life cases: handlers succeed at once and return nothing (no retries, no results stored in status.<id>); the handlers' fields "
               "never cover metadata… (finding F8 is the pure level's subject, so NO failure of a life is attributed to it); sub-handlers are "
               "not generated (a sub-handler's field= is resolved against the parent's narrowed cause: semantics unspecified, see NOTES); an "
               "object that matches no handler's criteria is expected to be left untouched (nothing stored); bodies whose metadata is not a "
               "mapping are not judged (impossible on a Kubernetes API), every other exception raised inside kopf is an oracle failure "
               "(no exemption: since kopf 571b1b2 a handler's/storage's field hidden behind a non-mapping value is an absent field; the "
               "signature of the fixed finding C04-F13 only names that class when it comes back)",
               "life cases in which a status-based storage's OWN location holds a foreign non-mapping value (e.g. status.kopf overwritten with a "
               "string, a handler watching `status`): the first own write REPLACES that value (merge-patch), the watcher of `status` sees one "
               "change made by the framework; such lives are judged only for: no exception, the handling comes to rest (same exemption as at "
               "the pure level, next line)",
               "own-write and closed-loop oracles skip a storage write whose configured location lies below a non-mapping value of the "
               "object (e.g. diff-base field spec.lhc and spec: false: the merge-patch replaces the value)"]

THEOREM_NAMES = [
    "diff_self_empty", "diff_empty_iff", "apply_diff", "reduce_exact", "reduce_apply", "reduce_empty_iff",
    "null_absent_witness", "bool_number_change_detected",
    "status_invisible", "status_removal_invisible", "system_metadata_invisible",
    "marked_annotation_invisible", "prefix_group_invisible", "first_custom_prefix_write_invisible",
    "first_annotation_write_invisible",
    "kopf_storage_write_invisible", "store_marker_spec", "kopf_dev_touch_invisible", "marker_first_write_witness",
    "own_key_unmarked_invisible_partial", "multi_drs_own_key_invisible",
    "extra_annotations_witness", "status_handler_touch_invisible", "touch_field_cleaned",
    "adoption_loses_last_handled_witness",
    "payload_exact", "essence_injective_on_payload", "essence_wf",
    "change_detected", "payload_change_detected", "label_exact", "annotation_exact",
    "label_change_detected", "ordinary_annotation_change_detected",
    "nested_own_writes_cleaned_partial", "nested_ignored_fields_cleaned", "multi_cleaning_order_independent",
    "multi_transitional_store_invisible", "multi_marker_restored_witness",
    "noop_is_stable", "creation_settles", "settled_after_store", "update_is_stored", "update_settles", "store_only_on_difference",
    "stale_last_handled_witness", "field_handler_selected", "field_handler_called", "unchanged_field_not_selected",
    "field_handler_not_selected_witness",
    "hidden_field_is_absent", "handler_fields_never_type_error", "hidden_field_raised_witness", "hidden_status_field_raised_witness",
    "served_prefixes_history_independent", "served_build_history_independent", "ordinary_annotation_kept_after_any_history",
    "remembering_hides_after_marked_object", "remembered_prefixes_witness",
]

QUICK_PAIRS, THOROUGH_PAIRS = 5000, 300000
SHARD = 2500            # pairs per shard
ESS_RATIO = 0.35        # essence cases per diff pair
LIFE_PER_PAIRS = 8      # one life case (creation -> quiet -> edit -> quiet through the real processing core) per so many diff pairs
SERVED_PER_PAIRS = 10   # one case of ONE storage pair serving several objects (shared annotation prefixes, another operator's markers) per so many diff pairs
MULTI_RATIO = 0.3       # dedicated MultiDiffBaseStorage cases per essence case (beside the ~18 % multi among those)

# ------------------------------------------------------------------------------------------------
# JSON helpers that belong to the oracle (independent of Lean and of kopf)


def strict_eq(x: Any, y: Any) -> bool:
    """JSON equality: types matter (True is not 1), dict key order does not."""
    if isinstance(x, bool) or isinstance(y, bool):
        return isinstance(x, bool) and isinstance(y, bool) and x == y
    if isinstance(x, dict) and isinstance(y, dict):
        return x.keys() == y.keys() and all(strict_eq(v, y[k]) for k, v in x.items())
    if isinstance(x, list) and isinstance(y, list):
        return len(x) == len(y) and all(strict_eq(a, b) for a, b in zip(x, y))
    if type(x) is not type(y):
        return False
    return x == y


def drop_nulls(x: Any) -> Any:
    """The equivalence diff_iter actually decides: null-valued object keys dropped (finding C04-F10 when it matters); lists are opaque."""
    if isinstance(x, dict):
        return {k: drop_nulls(v) for k, v in x.items() if v is not None}
    return x


def equiv_strict(a: Any, b: Any) -> bool:
    return strict_eq(drop_nulls(a), drop_nulls(b))


def equiv_py(a: Any, b: Any) -> bool:
    return bool(drop_nulls(a) == drop_nulls(b))


def merge_patch(target: Any, patch: Any) -> Any:
    """RFC 7386, written from the RFC's pseudo-code."""
    if not isinstance(patch, dict):
        return copy.deepcopy(patch)
    result = dict(target) if isinstance(target, dict) else {}
    for name, value in patch.items():
        if value is None:
            result.pop(name, None)
        else:
            result[name] = merge_patch(result.get(name), value)
    return result


def py_apply(items: list, old: Any) -> Any:
    """Apply (op, path, old, new) items: add/change set the value at the path, remove deletes the key."""
    cur = copy.deepcopy(old)
    for op, path, _o, n in items:
        if not path:
            cur = None if op == "remove" else copy.deepcopy(n)
        elif op == "remove":
            d = cur
            for k in path[:-1]:
                d = d.get(k) if isinstance(d, dict) else None
            if isinstance(d, dict):
                d.pop(path[-1], None)
        else:
            if not isinstance(cur, dict):
                cur = {}
            d = cur
            for k in path[:-1]:
                if not isinstance(d.get(k), dict):
                    d[k] = {}
                d = d[k]
            d[path[-1]] = copy.deepcopy(n)
    return cur


def py_resolve(d: Any, path: list) -> Any:
    for k in path:
        if not isinstance(d, dict) or k not in d:
            return None
        d = d[k]
    return d


def only_boolint(a: Any, b: Any) -> bool:
    """Do a and b differ (strictly) although Python's == calls them equal?  (the F7 class)"""
    return equiv_py(a, b) and not equiv_strict(a, b)


def depth_of(x: Any) -> int:
    if isinstance(x, dict):
        return 1 + max([depth_of(v) for v in x.values()] or [0])
    if isinstance(x, list):
        return 1 + max([depth_of(v) for v in x] or [0])
    return 0


def canon_items(items: Any) -> list:
    out = [[str(op), list(path), old, new] for op, path, old, new in items]
    out.sort(key=leanio.canon)
    return out


def digest(x: Any) -> str:
    return hashlib.md5(leanio.canon(x).encode()).hexdigest()[:16]


# ------------------------------------------------------------------------------------------------
# generators

UNI_KEYS = ["a", "b", "field", "x-y", "ключ", "名前", "k.dot", "with/slash", "", " ", "émoji😀", "A", "0", "true", "null"]
UNI_STRS = ["", "v", "value", "значение", "日本語", "😀", "line\nbreak", "tab\t", "q\"uote", "back\\slash", "0", "1", "true", "null",
            "a/b", "x" * 70]
INTS = [0, 1, 0, 1, -1, 2, 7, 63, 64, 253, 10**12, -(10**20)]


def gen_scalar(rng: random.Random) -> Any:
    r = rng.random()
    if r < 0.12:
        return None
    if r < 0.34:
        return rng.choice([True, False])
    if r < 0.62:
        return rng.choice(INTS)
    return rng.choice(UNI_STRS)


def gen_value(rng: random.Random, depth: int) -> Any:
    if depth <= 0 or rng.random() < 0.35:
        return gen_scalar(rng)
    r = rng.random()
    if r < 0.62:
        n = rng.choice([0, 1, 1, 2, 2, 3, 4])
        return {rng.choice(UNI_KEYS): gen_value(rng, depth - 1) for _ in range(n)}
    n = rng.choice([0, 1, 2, 3])
    return [gen_value(rng, depth - 1) for _ in range(n)]


OWN_PREFIXES = ["kopf.zalando.org", "my-op.example.com", "op.kopf.zalando.org", "kopf.dev", "x", "zalando.org",
                "p" * 70 + ".example.com"]
ANN_NAMES = ["plain", "note", "example.com/owner", "other.io/kopf-managed", "other.io/state", "other.io/sub/deep",
             "kopf.zalando.org/last-handled-configuration", "kopf.zalando.org/touch-dummy", "kopf.zalando.org/fn",
             "kopf.zalando.org/kopf-managed", "sub.kopf.zalando.org/x", "notkopf.zalando.org.evil/x", "xkopf.zalando.org/y",
             "kubectl.kubernetes.io/last-applied-configuration", "kubectl.kubernetes.io/restartedAt",
             "/kopf-managed", "/x", "a/", "kopf-managed", "zalando.org/x", "my-op.example.com/user-option",
             "my-op.example.com/kopf-managed", "kopf.dev/state", "kopf.dev/last-handled-configuration-ofDRS",
             "kopf.zalando.org/last-handled-configuration-ofDRS", "my-op.example.com/lhc-ofDRS", "ünï.example/kopf-managed", "ünï.example/π", "x/y"]


def gen_annotations(rng: random.Random) -> dict:
    n = rng.choice([0, 1, 2, 3, 4, 6])
    return {rng.choice(ANN_NAMES): rng.choice(["v", "yes", "{\"a\":1}\n", "", "значение"]) for _ in range(n)}


def gen_body(rng: random.Random) -> dict:
    """A Kubernetes-shaped object: identifying fields, system metadata, labels, annotations, payload."""
    kind = rng.choice(["KopfExample", "KopfExample", "Pod", "ReplicaSet", "ConfigMap"])
    meta: dict[str, Any] = {"name": rng.choice(["obj", "имя", "n-1"]), "namespace": "ns", "uid": "u-%d" % rng.randrange(100),
                            "resourceVersion": str(rng.randrange(10**6)), "generation": rng.randrange(1, 9),
                            "creationTimestamp": "2020-01-01T00:00:00Z"}
    if rng.random() < 0.5:
        meta["labels"] = {rng.choice(["app", "tier", "ключ", "example.com/l"]): rng.choice(["a", "b", ""]) for _ in range(rng.choice([0, 1, 2]))}
    if rng.random() < 0.75:
        meta["annotations"] = gen_annotations(rng)
    if rng.random() < 0.4:
        meta["finalizers"] = rng.sample(["kopf.zalando.org/KopfFinalizerMarker", "other.io/fin", "foregroundDeletion"], rng.choice([0, 1, 2]))
    if rng.random() < 0.15:
        meta["deletionTimestamp"] = "2020-02-02T00:00:00Z"
    if rng.random() < 0.3:
        meta["managedFields"] = [{"manager": "kubectl", "operation": "Update", "fieldsV1": {"f:spec": {}}}]
    if kind == "ReplicaSet" or rng.random() < 0.1:
        meta["ownerReferences"] = [{"kind": k, "name": "o", "uid": "o1", "apiVersion": "apps/v1"}
                                   for k in rng.sample(["Deployment", "Other", "Job"], rng.choice([0, 1, 2]))]
    for k in list(meta):
        if k not in ("name",) and rng.random() < 0.04:
            del meta[k]
    body: dict[str, Any] = {"apiVersion": "kopf.dev/v1", "kind": kind, "metadata": meta}
    if rng.random() < 0.9:
        v = gen_value(rng, 5)
        body["spec"] = v if isinstance(v, dict) or rng.random() < 0.15 else {"field": v, "n": rng.choice(INTS)}
    if rng.random() < 0.6:
        st: Any = gen_value(rng, 3)
        if not isinstance(st, dict) and rng.random() < 0.8:
            st = {"state": st}
        if isinstance(st, dict) and rng.random() < 0.5:
            st["kopf"] = {"progress": {"fn": {"started": "2020", "retries": 0}}, "dummy": "2020-01-01"}
        elif isinstance(st, dict) and rng.random() < 0.12:
            # the storages' own stanza overwritten with a non-mapping: their fields are hidden behind it (absent since kopf 571b1b2),
            # fields configured elsewhere (status.dummy, status.progress) are not
            st["kopf"] = rng.choice(["overwritten", 5, [], None])
            if rng.random() < 0.5:
                st["dummy"] = "2020-01-01"
        body["status"] = st
    for extra in rng.sample(["data", "stringData", "rules", "ключ"], rng.choice([0, 0, 1, 2])):
        body[extra] = gen_value(rng, 3)
    if rng.random() < 0.03:
        del body["metadata"]
    elif rng.random() < 0.02:
        body["metadata"] = rng.choice([None, "str", 5, []])       # malformed stream: non-mapping metadata
    return body


def all_paths(x: Any, prefix: tuple = ()) -> list[tuple]:
    out = [prefix]
    if isinstance(x, dict):
        for k, v in x.items():
            out.extend(all_paths(v, prefix + (k,)))
    return out


def set_at(x: Any, path: tuple, v: Any) -> Any:
    if not path:
        return v
    x = dict(x) if isinstance(x, dict) else {}
    x[path[0]] = set_at(x.get(path[0]), path[1:], v) if len(path) > 1 else v
    return x


def del_at(x: Any, path: tuple) -> Any:
    x = dict(x)
    if len(path) == 1:
        x.pop(path[0], None)
    else:
        x[path[0]] = del_at(x[path[0]], path[1:])
    return x


def twist(rng: random.Random, v: Any) -> Any:
    """A value near `v`: the bool/int confusions deliberately, list element edits, type changes."""
    if isinstance(v, bool):
        return rng.choice([int(v), not v, int(not v), None, "true"])
    if isinstance(v, int):
        return rng.choice([bool(v) if v in (0, 1) else v + 1, v + 1, str(v), None, -v if v else 1])
    if isinstance(v, str):
        return rng.choice([v + "x", "", v.upper() if v.upper() != v else v + "ё", None, 0])
    if isinstance(v, list):
        if v and rng.random() < 0.6:
            i = rng.randrange(len(v))
            return v[:i] + [twist(rng, v[i])] + v[i + 1:]
        return rng.choice([v + [gen_scalar(rng)], v[:-1], [], {}, None])
    if isinstance(v, dict):
        return rng.choice([{}, None, [], dict(v, **{rng.choice(UNI_KEYS): gen_scalar(rng)}), "s"])
    return rng.choice([0, False, "", {}, []])       # v is None


def mutate(rng: random.Random, a: Any, tags: list[str]) -> Any:
    paths = all_paths(a)
    p = rng.choice(paths)
    r = rng.random()
    sub = py_resolve(a, list(p))
    if r < 0.45:
        tags.append("twist")
        return set_at(a, p, twist(rng, sub))
    if r < 0.65 and isinstance(sub, dict):
        tags.append("addkey")
        v = None if rng.random() < 0.2 else gen_value(rng, 2)
        return set_at(a, p + (rng.choice(UNI_KEYS),), v)
    if r < 0.85 and p:
        tags.append("delkey")
        return del_at(a, p)
    if p:
        tags.append("nullify")
        return set_at(a, p, None)
    tags.append("twist")
    return set_at(a, p, twist(rng, sub))


def gen_pair(rng: random.Random) -> tuple[Any, Any, list[str]]:
    tags: list[str] = []
    r = rng.random()
    if r < 0.06:
        a = gen_value(rng, 2)                       # any JSON value at the root, incl. None and scalars
    elif r < 0.55:
        a = gen_value(rng, 5)
        if not isinstance(a, dict):
            a = {"spec": a}
    else:                                           # essence-shaped
        a = {k: v for k, v in gen_body(rng).items() if k not in ("apiVersion", "kind", "status")}
        if isinstance(a.get("metadata"), dict):
            a["metadata"] = {k: v for k, v in a["metadata"].items() if k in ("labels", "annotations")}
    r = rng.random()
    if r < 0.06:
        b = copy.deepcopy(a)
        tags.append("identical")
    elif r < 0.14:
        b = gen_value(rng, 4)
        tags.append("independent")
    elif r < 0.18:
        b = None if rng.random() < 0.5 else a
        a = a if b is None else None
        tags.append("none-side")
    else:
        b = a
        for _ in range(rng.choice([1, 1, 1, 2, 3])):
            if isinstance(b, dict):
                b = mutate(rng, b, tags)
            else:
                b = twist(rng, b)
                tags.append("twist")
    if rng.random() < 0.5:
        a, b = b, a
        tags.append("swapped")
    return a, b, tags


def gen_path(rng: random.Random, a: Any, b: Any) -> list[str]:
    cands = all_paths(a) + all_paths(b)
    r = rng.random()
    if r < 0.08:
        return []
    p = list(rng.choice(cands))
    if r < 0.55:
        return p
    if r < 0.8:
        return p + [rng.choice(UNI_KEYS)] + ([rng.choice(UNI_KEYS)] if rng.random() < 0.3 else [])
    if r < 0.9 and p:
        return p[:rng.randrange(len(p) + 1)]
    return [rng.choice(["spec", "metadata", "zzz"])] + [rng.choice(UNI_KEYS) for _ in range(rng.choice([0, 1, 2]))]


# ------------------------------------------------------------------------------------------------
# storage configurations (real constructors) and their description for the model

KEYS = ["last-handled-configuration", "lhc", "k" * 64, "with/slash<x>", "a" * 63, "b" * 40, "_lhc", "lhc/", "lambda:x:1", "-" + "k" * 64]
IGNORED = [[], [], [], ["spec.ignored"], ["spec.field", "metadata.labels.tier"], ["status"], ["data"], [["spec", "k.dot"]],
           ["spec.a.b.c"], ["metadata.annotations.plain"]]
HIDS = ["create_fn", "update_fn/spec.field", "fn/sub1/sub2", "h" * 70, "on_field/metadata.labels", "a<b>c", "ключ"]
EXTRAS_SAFE = ["spec.field", "spec", "status.state", "status.x.y", "metadata.labels.app", "spec.a.b", "data", "spec.n",
               "status.kopf.x", ["spec", "k.dot"], ["spec", "ключ"], "rules", "status.conditions"]
EXTRAS_NASTY = ["status", "metadata", "metadata.annotations", "status.kopf", "metadata.finalizers", "metadata.resourceVersion",
                "status.kopf.dummy", "metadata.annotations.plain", "metadata.labels"]
FINALIZER = "kopf.zalando.org/KopfFinalizerMarker"


def gen_diffleaf_spec(rng: random.Random) -> dict:
    if rng.random() < 0.8:
        kw: dict[str, Any] = {}
        if rng.random() < 0.55:
            kw["prefix"] = rng.choice(OWN_PREFIXES)
        if rng.random() < 0.35:
            kw["key"] = rng.choice(KEYS)
        if rng.random() < 0.3:
            kw["v1"] = rng.random() < 0.5
        ig = rng.choice(IGNORED)
        if ig:
            kw["ignored_fields"] = ig
        return {"cls": "annotations", "kw": kw}
    kw = {}
    if rng.random() < 0.4:
        kw["name"] = rng.choice(["kopf", "myop"])
    if rng.random() < 0.4:
        kw["field"] = rng.choice(["status.{name}.lhc", "status.lhc", ["status", "k.dot"], "spec.lhc"])
    ig = rng.choice(IGNORED)
    if ig:
        kw["ignored_fields"] = ig
    return {"cls": "status", "kw": kw}


def gen_diffbase_spec(rng: random.Random) -> dict:
    r = rng.random()
    if r < 0.35:
        return {"cls": "annotations", "kw": {}}
    if r < 0.82:
        return gen_diffleaf_spec(rng)
    return {"cls": "multi", "storages": [gen_diffleaf_spec(rng) for _ in range(rng.choice([1, 2, 2, 3]))]}


def gen_progleaf_spec(rng: random.Random) -> dict:
    r = rng.random()
    if r < 0.45:
        kw: dict[str, Any] = {}
        if rng.random() < 0.7:
            kw["prefix"] = rng.choice(OWN_PREFIXES)
        if rng.random() < 0.3:
            kw["touch_key"] = rng.choice(["touch-dummy", "td", "t" * 64])
        if rng.random() < 0.3:
            kw["verbose"] = True
        return {"cls": "annotations", "kw": kw}
    kw = {}
    if rng.random() < 0.3:
        kw["name"] = rng.choice(["kopf", "myop"])
    if rng.random() < 0.3:
        kw["field"] = rng.choice(["status.{name}.progress", "status.progress", ["status", "p.q"], "kopf.progress"])
    if rng.random() < 0.3:
        kw["touch_field"] = rng.choice(["status.{name}.dummy", "status.dummy", "kopf.dummy", "dummy"])
    return {"cls": rng.choice(["status", "nowrite"]), "kw": kw}


def gen_progress_spec(rng: random.Random) -> dict:
    r = rng.random()
    if r < 0.4:
        return {"cls": "smart", "kw": {}}
    if r < 0.55:
        kw: dict[str, Any] = {}
        if rng.random() < 0.8:
            kw["prefix"] = rng.choice(OWN_PREFIXES)
        if rng.random() < 0.3:
            kw["name"] = "myop"
        return {"cls": "smart", "kw": kw}
    if r < 0.85:
        return gen_progleaf_spec(rng)
    return {"cls": "multi", "storages": [gen_progleaf_spec(rng) for _ in range(rng.choice([0, 1, 2, 3]))]}


def _kopf():
    from kopf._cogs.configs import diffbase, progress
    from kopf._cogs.structs import bodies, dicts, diffs, finalizers, patches
    return {"diffbase": diffbase, "progress": progress, "bodies": bodies, "dicts": dicts, "diffs": diffs,
            "finalizers": finalizers, "patches": patches}


def _kw(kw: dict) -> dict:
    out = dict(kw)
    for k in ("field", "touch_field"):
        if isinstance(out.get(k), list):
            out[k] = tuple(out[k])
    if "ignored_fields" in out:
        out["ignored_fields"] = [tuple(f) if isinstance(f, list) else f for f in out["ignored_fields"]]
    return out


def build_diffbase(K: dict, spec: dict) -> Any:
    d = K["diffbase"]
    if spec["cls"] == "annotations":
        return d.AnnotationsDiffBaseStorage(**_kw(spec["kw"]))
    if spec["cls"] == "status":
        return d.StatusDiffBaseStorage(**_kw(spec["kw"]))
    if spec["cls"] == "multi":
        return d.MultiDiffBaseStorage([build_diffbase(K, s) for s in spec["storages"]])
    raise ValueError(spec)


def build_progress(K: dict, spec: dict) -> Any:
    p = K["progress"]
    cls = {"annotations": p.AnnotationsProgressStorage, "status": p.StatusProgressStorage,
           "nowrite": p.NoWriteStatusProgressStorage, "smart": p.SmartProgressStorage}
    if spec["cls"] == "multi":
        return p.MultiProgressStorage([build_progress(K, s) for s in spec["storages"]])
    return cls[spec["cls"]](**_kw(spec["kw"]))


def parse_field(f: Any) -> list[str]:
    if f is None:
        return []
    if isinstance(f, str):
        return f.split(".")
    return list(f)


def make_suffix(key: str) -> str:
    digest_ = hashlib.blake2b(key.encode("utf-8"), digest_size=4).digest()
    return ("-" + base64.b64encode(digest_, altchars=b"-.").decode("ascii")).rstrip("=-.")


def safe_key(key: str) -> str:
    return key.replace("/", ".").replace("<", "_").replace(">", "_").replace(":", "_")


def model_diffleaf(K: dict, s: Any, hashes: dict) -> dict:
    d = K["diffbase"]
    ig = [parse_field(f) for f in s.ignored_fields]
    if isinstance(s, d.AnnotationsDiffBaseStorage):
        for k in (s.key, s.key + "-ofDRS"):
            for kk in (k, safe_key(k)):
                hashes[kk] = make_suffix(kk)
        return {"kind": "annotations", "prefix": s.prefix, "key": s.key, "v1": bool(s.v1), "ignored": ig}
    if isinstance(s, d.StatusDiffBaseStorage):
        return {"kind": "status", "field": list(s.field), "ignored": ig}
    raise ValueError(f"unsupported diff-base storage {type(s).__name__}")


def model_cfg(K: dict, ds: Any, ps: Any) -> dict:
    d, p = K["diffbase"], K["progress"]
    hashes: dict[str, str] = {"": make_suffix("")}       # make_keys asks for make_suffix('') (can a V1 key fit at all?)
    if isinstance(ds, d.MultiDiffBaseStorage):
        md = {"kind": "multi", "storages": [model_diffleaf(K, s, hashes) for s in ds.storages]}
    else:
        md = model_diffleaf(K, ds, hashes)

    def prog(s: Any) -> list:
        if isinstance(s, p.MultiProgressStorage):
            return [x for sub in s.storages for x in prog(sub)]
        if isinstance(s, p.AnnotationsProgressStorage):
            return [{"kind": "annotations", "prefix": s.prefix}]
        if isinstance(s, p.StatusProgressStorage):
            return [{"kind": "status", "field": list(s.field), "touch": list(s.touch_field)}]
        raise ValueError(f"unsupported progress storage {type(s).__name__}")
    return {"diffbase": md, "progress": prog(ps), "hashes": sorted([k, v] for k, v in hashes.items())}


def own_annotation_prefixes(K: dict, ds: Any, ps: Any) -> list[str]:
    d, p = K["diffbase"], K["progress"]
    out = []

    def walk(s: Any) -> None:
        if isinstance(s, (d.MultiDiffBaseStorage, p.MultiProgressStorage)):
            for x in s.storages:
                walk(x)
        elif isinstance(s, (d.AnnotationsDiffBaseStorage, p.AnnotationsProgressStorage)):
            out.append(s.prefix)
    walk(ds)
    walk(ps)
    return out


def ignored_paths(K: dict, ds: Any) -> list[list[str]]:
    d = K["diffbase"]
    out = [parse_field(f) for f in ds.ignored_fields]
    if isinstance(ds, d.MultiDiffBaseStorage):
        for s in ds.storages:
            out.extend(ignored_paths(K, s))
    if isinstance(ds, d.StatusDiffBaseStorage):
        out.append(list(ds.field))
    return out


def status_clean_paths(K: dict, ps: Any) -> list[list[str]]:
    p = K["progress"]
    if isinstance(ps, p.MultiProgressStorage):
        return [x for s in ps.storages for x in status_clean_paths(K, s)]
    if isinstance(ps, p.StatusProgressStorage):
        return [list(ps.field), list(ps.touch_field)]
    return []


ERRS = {TypeError: "type-error", KeyError: "key-error", ValueError: "value-error"}


def real_essence(K: dict, ds: Any, ps: Any, body: dict, extra: list) -> list:
    try:
        e = ds.build(body=K["bodies"].Body(body), extra_fields=[tuple(parse_field(f)) for f in extra])
        e = ps.clear(essence=e)
        return ["ok", e]
    except tuple(ERRS) as ex:
        return ["err", next(v for k, v in ERRS.items() if isinstance(ex, k))]


def overlaps(p: list, q: list) -> bool:
    n = min(len(p), len(q))
    return p[:n] == q[:n]


def leaf_paths(x: Any, prefix: tuple = ()) -> list[list[str]]:
    if isinstance(x, dict) and x:
        return [p for k, v in x.items() for p in leaf_paths(v, prefix + (k,))]
    return [list(prefix)]


def changed_paths(a: Any, b: Any, prefix: tuple = ()) -> list[list[str]]:
    """The oracle's own differ: the leaf-level paths at which two JSON values differ (strictly)."""
    if isinstance(a, dict) and isinstance(b, dict):
        out: list[list[str]] = []
        for k in list(a) + [k for k in b if k not in a]:
            if k not in b:
                out.extend(leaf_paths(a[k], prefix + (k,)))
            elif k not in a:
                out.extend(leaf_paths(b[k], prefix + (k,)))
            else:
                out.extend(changed_paths(a[k], b[k], prefix + (k,)))
        return out
    return [] if strict_eq(a, b) else [list(prefix)]


def has_path(x: Any, path: list) -> bool:
    for k in path:
        if not isinstance(x, dict) or k not in x:
            return False
        x = x[k]
    return True


STORAGE_WRITES = ("progress.store", "progress.purge", "touch", "touch-clear", "diffbase.store")


def own_locations(w: dict, written: list[list[str]]) -> list[list[str]]:
    """The locations a storage's own write (store/purge/touch) went to, the `kopf-managed` marker excepted:
    every storage removes these itself AFTER the handlers' fields were restored into the essence
    (Status*: dicts.remove of the field; Annotations*: remove_annotations of its exact keys / of its prefix),
    so the open finding F8 (a handler field restores a location the framework writes) cannot explain a
    change of the essence AT such a location."""
    if w.get("w") not in STORAGE_WRITES:
        return []
    return [p for p in written if p and not (p[:2] == ["metadata", "annotations"] and len(p) == 3 and p[2].endswith("/kopf-managed"))]


def at_own_location(changed: list[list[str]], own: list[list[str]]) -> list[list[str]]:
    return [cp for cp in changed if any(cp[:len(ol)] == ol for ol in own)]


def is_marked_prefix(prefix: str, names_under: list[str]) -> bool:
    """The documented convention: a prefix belongs to a Kopf-based operator when it carries the
    `kopf-managed` marker, is `kopf.zalando.org`, or is a sub-domain of it."""
    return "kopf-managed" in names_under or prefix == "kopf.zalando.org" or prefix.endswith(".kopf.zalando.org")


def ordinary_annotation(key: str, annotations: dict, own_prefixes: list[str]) -> bool:
    if key == "kubectl.kubernetes.io/last-applied-configuration":
        return False
    if "/" not in key:
        return True
    prefix, name = key.split("/", 1)
    if name == "kopf-managed" or prefix in own_prefixes:
        return False
    under = [k.split("/", 1)[1] for k in annotations if "/" in k and k.split("/", 1)[0] == prefix]
    return not is_marked_prefix(prefix, under)


# ------------------------------------------------------------------------------------------------
# evaluation of one case: implementation run, oracle, requests for the model

SIG_F7 = {"site": "diffs.diff_iter", "shape": "bool-int: Python == equates True/1 and False/0"}
SIG_F10 = {"site": "diffs.diff_iter", "shape": "null-valued key vs absent key: diff_iter(None, None) yields nothing"}
SIG_N1 = {"site": "StorageKeyMarkingConvention._store_marker",
          "shape": "no kopf-managed marker for a prefix starting with 'kopf.' other than kopf.zalando.org: another Kopf operator's writes count as changes"}
SIG_N2 = {"site": "CollisionEvadingConvention.mark_key",
          "shape": "a change of ownerReferences switches the annotation names: a handled object looks never handled"}
SIG_N3 = {"site": "StatusProgressStorage.clear", "shape": "touch_field is not removed from the essence"}
SIG_F11 = {"site": "StorageKeyMarkingConvention._store_marker",
           "shape": "the first marker write hides a foreign annotation under the operator's own prefix"}
SIG_F8 = {"site": "DiffBaseStorage.build", "shape": "extra field restores an own storage location"}
SIG_OWNLOC = {"site": "DiffBaseStorage.build/ProgressStorage.clear",
              "shape": "a storage's own location (its status field / its exact annotation keys) is in the essence"}
SIG_IGNORED = {"site": "DiffBaseStorage.build", "shape": "an ignored field (ignored_fields of the storage or of a nested storage) is in the essence"}
SIG_ORDER = {"site": "MultiDiffBaseStorage.build", "shape": "the essence depends on the order of the nested storages"}


FAIL_PER_CLASS = 5
CASE_KINDS = ("diff", "essence", "sequence", "served", "cycle", "life")


class Out:
    """What one shard collects (picklable)."""

    def __init__(self) -> None:
        self.evals = 0
        self.keys: set[str] = set()
        self.samples: list = []
        self.hist: dict[str, dict[str, int]] = {}
        self.fails: list = []            # (kind, what, replay, signature)
        self.fail_classes: dict[str, int] = {}   # failures SEEN per class (kept: at most FAIL_PER_CLASS of each)
        self.requests: list = []
        self.expect: list = []           # (what, impl, replay)  — aligned with requests
        self.cmp = 0

    def count(self, group: str, tag: Any, n: int = 1) -> None:
        g = self.hist.setdefault(group, {})
        g[str(tag)] = g.get(str(tag), 0) + n

    def fail(self, kind: str, what: str, replay: Any, sig: dict | None = None) -> None:
        # At most FAIL_PER_CLASS failures are kept per class (kind + signature, or kind + text): a frequent class
        # (e.g. the open finding F10 among the diff pairs) must never use up the room of another one. (A single
        # global cap of 200 did exactly that until the seeded change C04d: the tie failures, found last, were dropped.)
        cls = kind + "|" + (leanio.canon(sig) if sig else what)
        n = self.fail_classes.get(cls, 0)
        self.fail_classes[cls] = n + 1
        if n < FAIL_PER_CLASS:
            self.fails.append((kind, what, replay, sig))

    def ask(self, what: str, req: list, impl: Any, replay: Any) -> None:
        self.requests.append(req)
        self.expect.append((what, impl, replay))


def _sig_for(a: Any, b: Any, shape: str, site: str = "diffs.diff_iter") -> dict:
    """Classify a literal (strict JSON) mismatch: only null-valued keys (F10), only bool/int (F7), or a new failure."""
    if equiv_strict(a, b):
        return SIG_F10
    if equiv_py(a, b):
        return SIG_F7
    return {"site": site, "shape": shape}


def eval_diff_case(K: dict, case: dict, out: Out, tags: list[str] | None = None) -> None:
    a, b, path = case["a"], case["b"], case["path"]
    diffs, dicts = K["diffs"], K["dicts"]
    replay = {"kind": "diff", "a": a, "b": b, "path": path}
    raw = diffs.diff(a, b)
    d = canon_items(raw)
    # ---- oracle: whole-object diff ------------------------------------------------------------
    applied = py_apply(d, a)
    if not strict_eq(applied, b):
        out.fail("oracle", "applying diff(old, new) to old does not yield new", dict(replay, diff=d, applied=applied),
                 _sig_for(applied, b, "apply(diff(old,new), old) != new"))
    if (not d) != strict_eq(a, b):
        what = ("diff is empty although old and new differ" if not d else "diff is non-empty although nothing differs")
        out.fail("oracle", what, dict(replay, diff=d), _sig_for(a, b, "empty-iff"))
    for op, p, o, n in d:
        ok = strict_eq(py_resolve(a, p), o) and strict_eq(py_resolve(b, p), n) and \
            {"add": o is None and n is not None, "remove": o is not None and n is None,
             "change": o is not None and n is not None}.get(op, False)
        if not ok:
            out.fail("oracle", "a diff item does not carry the exact old/new values of its field", dict(replay, item=[op, p, o, n]),
                     {"site": "diffs.diff_iter", "shape": "item-values"})
    # ---- oracle: narrowed to a handler's field (what ResourceHandler.adjust_cause hands over) ---
    tp = tuple(path)
    r = canon_items(diffs.reduce(raw, tp))
    oa = dicts.resolve(a, tp, None)
    ob = dicts.resolve(b, tp, None)
    if not strict_eq(oa, py_resolve(a, path)) or not strict_eq(ob, py_resolve(b, path)):
        out.fail("oracle", "old/new narrowed to the field are not the values at that field", replay,
                 {"site": "dicts.resolve", "shape": "narrowed-values"})
    rapplied = py_apply(r, oa)
    if not strict_eq(rapplied, ob):
        out.fail("oracle", "applying the field-reduced diff to the field's old value does not yield its new value",
                 dict(replay, diff=d, reduced=r, applied=rapplied),
                 _sig_for(rapplied, ob, "apply(reduce(diff,field), old.field) != new.field", "diffs.reduce_iter"))
    if (not r) != strict_eq(oa, ob):
        out.fail("oracle", "field-reduced diff is empty iff the field is unchanged — violated", dict(replay, diff=d, reduced=r),
                 _sig_for(oa, ob, "reduced-empty-iff", "diffs.reduce_iter"))
    # ---- bookkeeping + requests for the model ---------------------------------------------------
    out.evals += 1
    nontrivial = bool(d)
    if nontrivial:
        out.keys.add(digest([a, b, path]))
    for op, _p, _o, _n in d:
        out.count("diff_op", op)
    out.count("diff_len", min(len(d), 8))
    out.count("reduced_len", min(len(r), 8))
    out.count("depth", max(depth_of(a), depth_of(b)))
    out.count("path_len", min(len(path), 6))
    out.count("reduce_branch", "root" if not path else "none" if not d else
              "+".join(sorted({"shrink" if p[:len(path)] == path else "resolve" if p == path[:len(p)] else "drop" for _o, p, _x, _y in d})))
    out.count("boolint_only", only_boolint(a, b))
    for t in tags or []:
        out.count("mutation", t)
    if len(out.samples) < 3 and nontrivial and len(leanio.canon(replay)) < 600:
        out.samples.append(dict(replay, diff=d, reduced=r))
    out.ask("diffs.diff", ["C04.diff", a, b], d, replay)
    out.ask("diffs.reduce", ["C04.reduce", d, path], r, replay)
    out.ask("applier (Lean applyDiff vs. the oracle's applier)", ["C04.apply", d, a], applied, replay)
    out.ask("equivalence (Lean ≈ vs. JSON equality modulo null keys)", ["C04.equiv", a, b], equiv_strict(a, b), replay)


def gen_diff_case(rng: random.Random) -> tuple[dict, list[str]]:
    a, b, tags = gen_pair(rng)
    return {"a": a, "b": b, "path": gen_path(rng, a, b)}, tags


# ---- essence ------------------------------------------------------------------------------------

def gen_hidden_case(rng: random.Random) -> dict:
    """One of a status-based storage's own fields lies below a foreign non-mapping value (its `dicts.remove` raises TypeError and is
    skipped since kopf 571b1b2), the OTHER own field does not — it must still be cleaned, whatever happened to the first; a handler
    watches `status` (or exactly that field), so the field is in the essence unless the storage removes it."""
    hidden_first = rng.random() < 0.6
    if hidden_first:
        kw = {"field": "status.{name}.progress", "touch_field": rng.choice(["status.dummy", "status.other.dummy"])}
    else:
        kw = {"field": rng.choice(["status.progress", "status.other.progress"]), "touch_field": "status.{name}.dummy"}
    if rng.random() < 0.25:
        kw["name"] = "myop"
    name = kw.get("name", "kopf")
    prog: dict = {"cls": rng.choice(["status", "status", "nowrite"]), "kw": kw}
    if rng.random() < 0.3:
        prog = {"cls": "multi", "storages": rng.sample([prog, {"cls": "annotations", "kw": {}}], 2)}
    body = gen_body(rng)
    st: dict = {"state": "ok", name: rng.choice(["overwritten", 5, [], None, False]), "dummy": "2020-01-01T00:00:00",
                "progress": {"fn": {"started": "2020", "retries": 1}}, "other": {"dummy": "2020", "progress": {"fn": {"retries": 0}}, "kept": 1}}
    for k in ("dummy", "progress", "other"):
        if rng.random() < 0.2:
            del st[k]
    body["status"] = st
    if not isinstance(body.get("metadata"), dict):
        body["metadata"] = {"name": "obj", "namespace": "ns", "uid": "u-1"}
    r = rng.random()
    diffbase = gen_diffbase_spec(rng) if r < 0.5 else {"cls": "status", "kw": {"name": name}} if r < 0.8 else \
        {"cls": "multi", "storages": [{"cls": "status", "kw": {"name": name}}, {"cls": "annotations", "kw": {}}]}
    extra = [rng.choice(["status", "status", "status.dummy", "status.progress", "status.other", f"status.{name}"])] + \
        rng.sample(EXTRAS_SAFE, rng.choice([0, 1]))
    writes = [{"w": rng.choice(["touch", "touch", "progress.store", "touch-clear", "diffbase.store"]), "value": "2020-01-01T00:00:00.123456",
               "id": "create_fn", "record": {"started": "2020-01-01T00:00:00", "stopped": None, "delayed": None, "purpose": "create",
                                             "retries": 1, "success": False, "failure": False, "message": None, "subrefs": None}}
              for _ in range(rng.choice([1, 2]))]
    return {"diffbase": diffbase, "progress": prog, "extra": extra, "body": body, "wseed": rng.getrandbits(48), "writes": writes,
            "hidden_gen": "the progress field is hidden, the touch field is not" if hidden_first else "the touch field is hidden, the progress field is not"}


def gen_ess_case(rng: random.Random) -> dict:
    if rng.random() < 0.05:
        return gen_hidden_case(rng)
    extra: list = []
    r = rng.random()
    if r < 0.5:
        extra = rng.sample(EXTRAS_SAFE, rng.choice([1, 1, 2, 3]))
    elif r < 0.62:
        extra = rng.sample(EXTRAS_SAFE, rng.choice([0, 1])) + [rng.choice(EXTRAS_NASTY)]
    body = gen_body(rng)
    return {"diffbase": gen_diffbase_spec(rng), "progress": gen_progress_spec(rng), "extra": extra, "body": body,
            "wseed": rng.getrandbits(48)}


OTHER_PREFIXES = ["kopf.dev", "kopf.io", "other-op.example.org", "other.kopf.zalando.org", "x.y", "kopf.example.com"]

# ---- MultiDiffBaseStorage: 2-3 nested storages in every order -------------------------------------

MULTI_STATUS_FIELDS = ["status.diff-base", "status.{name}.last-handled-configuration", "status.lhc", ["status", "k.dot"], "status.kopf.lhc2"]
MULTI_ANN = [{"prefix": "kopf.zalando.org", "key": "last-handled-configuration"}, {}, {"prefix": "my-op.example.com"},
             {"prefix": "kopf.dev", "key": "lhc"}, {"prefix": "x", "key": "with/slash<x>"}, {"prefix": "op.kopf.zalando.org", "key": "k" * 64},
             {"prefix": "my-op.example.com", "key": "_lhc"}, {"prefix": "zalando.org", "key": "lhc/"}]
MULTI_IGNORED = [["spec.replicas"], ["spec.ignored"], ["spec.field"], ["data"], [["spec", "k.dot"]], ["metadata.labels.tier"],
                 ["spec.a.b"], ["spec.field", "spec.n"], ["rules"]]
MULTI_SHAPES = ["SA", "AS", "SAA", "ASA", "AAS", "AA", "AAA", "SS", "SSA", "SAS", "ASS"]


def gen_multi_case(rng: random.Random) -> dict:
    """A MultiDiffBaseStorage of 2-3 nested storages (status-based first / middle / last / absent / twice; annotations
    with different prefixes and keys; ignored_fields on nested storages), handlers' fields that do / do not cover the
    locations the nested storages write, a body that carries the nested storages' own stored states (the writes start
    with a real store) — the docs' transitional set-up `Multi([Status(field='status.diff-base'), Annotations()])` among them."""
    shape = rng.choice(MULTI_SHAPES) if rng.random() < 0.85 else "SA"
    storages: list[dict] = []
    sfields = rng.sample(MULTI_STATUS_FIELDS, 2)
    anns = rng.sample(MULTI_ANN, 3)
    for ch in shape:
        if ch == "S":
            kw: dict[str, Any] = {"field": sfields.pop()}
            if rng.random() < 0.3:
                kw["name"] = "myop"
            cls = "status"
        else:
            kw = dict(anns.pop())
            if rng.random() < 0.25:
                kw["v1"] = rng.random() < 0.5
            cls = "annotations"
        if rng.random() < 0.45:
            kw["ignored_fields"] = rng.choice(MULTI_IGNORED)
        storages.append({"cls": cls, "kw": kw})
    if shape == "SA" and rng.random() < 0.3:            # exactly the transitional set-up of docs/configuration.rst
        storages = [{"cls": "status", "kw": {"field": "status.diff-base"}},
                    {"cls": "annotations", "kw": {"prefix": "kopf.zalando.org", "key": "last-handled-configuration"}}]
    # handlers' fields: covering the nested storages' own locations, or not
    covering: list = []
    for st in storages:
        if st["cls"] == "status":
            f = st["kw"]["field"]
            fp = parse_field(f.format(name=st["kw"].get("name", "kopf")) if isinstance(f, str) else f)
            covering += ["status", fp, fp[:-1]] if len(fp) > 2 else ["status", fp]
        else:
            covering += ["metadata.annotations", "metadata"]
    r = rng.random()
    if r < 0.45:
        extra = [rng.choice(covering)] + rng.sample(EXTRAS_SAFE, rng.choice([0, 1]))
        cover = "covers an own location"
    elif r < 0.8:
        extra = rng.sample(EXTRAS_SAFE, rng.choice([1, 2]))
        cover = "does not cover"
    else:
        extra, cover = [], "no handler fields"
    body = gen_body(rng)
    if rng.random() < 0.7 and not isinstance(body.get("status"), dict):
        body["status"] = {"state": "ok"}
    if isinstance(body.get("spec"), dict) and rng.random() < 0.6:
        body["spec"].update({"replicas": rng.choice([1, 2, 3]), "ignored": "x", "field": rng.choice(["v", 1]), "n": 1})
    writes: list[dict] = [{"w": "diffbase.store"}]
    own_p = [st["kw"].get("prefix", "kopf.zalando.org") for st in storages if st["cls"] == "annotations"]
    writes += [w for w in gen_writes(rng, None, own_p) if w["w"] != "adopt"][:rng.choice([0, 1, 2, 3])]
    if rng.random() < 0.5:
        writes.append({"w": "diffbase.store"})
    prog = gen_progress_spec(rng) if rng.random() < 0.6 else {"cls": "smart", "kw": {}}
    return {"diffbase": {"cls": "multi", "storages": storages}, "progress": prog, "extra": extra, "body": body,
            "wseed": rng.getrandbits(48), "writes": writes, "multi_gen": {"shape": shape, "cover": cover}}


def gen_writes(rng: random.Random, body: dict | None = None, own: list[str] | None = None) -> list[dict]:
    kinds = ["progress.store", "progress.store", "progress.purge", "touch", "touch-clear", "diffbase.store", "diffbase.store",
             "finalizer.add", "finalizer.remove", "sysmeta", "status", "other-operator", "other-operator"]
    ws = []
    for _ in range(rng.choice([1, 2, 3, 4, 5])):
        k = rng.choice(kinds)
        w: dict[str, Any] = {"w": k}
        if k.startswith("progress."):
            stored = [x["id"] for x in ws if x["w"] == "progress.store"]
            w["id"] = rng.choice(stored) if stored and k == "progress.purge" and rng.random() < 0.8 else rng.choice(HIDS)
        if k == "progress.store":
            w["record"] = {"started": "2020-01-01T00:00:00", "stopped": rng.choice([None, "2020-01-01T00:00:01"]),
                           "delayed": None, "purpose": rng.choice(["create", "update", None]), "retries": rng.choice([0, 1, 5]),
                           "success": rng.choice([False, True]), "failure": False, "message": rng.choice([None, "ошибка"]),
                           "subrefs": rng.choice([None, ["fn/sub1"]])}
        if k == "touch":
            w["value"] = rng.choice(["2020-01-01T00:00:00.123456", "x"])
        if k == "other-operator":
            # another Kopf-based operator (its REAL storages, its own prefix) persists its state on the same object
            cands = [p for p in OTHER_PREFIXES if p not in (own or [])]
            w["prefix"] = rng.choice(cands)
            w["what"] = rng.choice(["store", "touch", "progress", "all"])
        if k == "sysmeta":
            w["edit"] = rng.choice(["resourceVersion", "managedFields", "generation", "deletionTimestamp", "selfLink", "uid"])
        if k == "status":
            w["path"] = rng.choice([["status", "handler_result"], ["status", "kopf", "progress", "fn", "retries"], ["status", "ключ"]])
            w["value"] = rng.choice([{"ok": True}, 1, "s"])
        ws.append(w)
    meta = (body or {}).get("metadata")
    if body is not None and body.get("kind") == "ReplicaSet" and isinstance(meta, dict) and rng.random() < 0.5 and \
            not any(isinstance(o, dict) and o.get("kind") == "Deployment" for o in (meta.get("ownerReferences") or [])
                    if isinstance(meta.get("ownerReferences"), list)):
        ws = [{"w": "diffbase.store"}, {"w": "adopt"}] + ws[:2]
    return ws


def apply_write(K: dict, ds: Any, ps: Any, body: dict, w: dict, essence: Any) -> tuple[dict, list[list[str]]]:
    """One of kopf's own writes, produced by the real code, applied the way the API server would.
    Returns the new body and the paths written."""
    B, P = K["bodies"].Body, K["patches"].Patch
    k = w["w"]
    if k in ("finalizer.add", "finalizer.remove"):
        nb = copy.deepcopy(body)
        (K["finalizers"].block_deletion if k == "finalizer.add" else K["finalizers"].allow_deletion)(nb, FINALIZER)
        return nb, [["metadata", "finalizers"]]
    if k == "sysmeta":
        nb = copy.deepcopy(body)
        m = nb.setdefault("metadata", {})
        e = w["edit"]
        if e == "managedFields":
            m[e] = (m.get(e) or []) + [{"manager": "kopf", "operation": "Update"}]
        elif e == "generation":
            m[e] = (m.get(e) or 0) + 1
        else:
            m[e] = str(m.get(e) or "") + "1"
        return nb, [["metadata", e]]
    if k == "other-operator":
        if "annotations" in w:                                   # hand-written corpus form
            pj = {"metadata": {"annotations": dict(w["annotations"])}}
            return merge_patch(body, pj), leaf_paths(pj)
        ods = K["diffbase"].AnnotationsDiffBaseStorage(prefix=w["prefix"])
        ops = K["progress"].AnnotationsProgressStorage(prefix=w["prefix"])
        patch = P()
        if w["what"] in ("store", "all"):
            ods.store(body=B(body), patch=patch, essence=ops.clear(essence=ods.build(body=B(body))))
        if w["what"] in ("touch", "all"):
            ops.touch(body=B(body), patch=patch, value="2020-01-01T00:00:00")
        if w["what"] in ("progress", "all"):
            ops.store(key="other_fn", record={"started": "2020-01-01T00:00:00", "retries": 1}, body=B(body), patch=patch)
        pj = json.loads(json.dumps(dict(patch)))
        return merge_patch(body, pj), leaf_paths(pj) if pj else []
    if k == "adopt":
        nb = copy.deepcopy(body)
        m = nb.setdefault("metadata", {})
        m["ownerReferences"] = list(m.get("ownerReferences") or []) + [
            {"kind": "Deployment", "name": "d", "uid": "d1", "apiVersion": "apps/v1", "controller": True}]
        return nb, [["metadata", "ownerReferences"]]
    if k == "status":
        patch: Any = {}
        d = patch
        for key in w["path"][:-1]:
            d = d.setdefault(key, {})
        d[w["path"][-1]] = w["value"]
        return merge_patch(body, patch), [w["path"]]
    patch = P()
    if k == "progress.store":
        ps.store(key=w["id"], record=dict(w["record"]), body=B(body), patch=patch)
    elif k == "progress.purge":
        ps.purge(key=w["id"], body=B(body), patch=patch)
    elif k == "touch":
        ps.touch(body=B(body), patch=patch, value=w["value"])
    elif k == "touch-clear":
        ps.touch(body=B(body), patch=patch, value=None)
    elif k == "diffbase.store":
        ds.store(body=B(body), patch=patch, essence=copy.deepcopy(essence))
    pj = json.loads(json.dumps(dict(patch)))          # what goes over the wire
    return merge_patch(body, pj), leaf_paths(pj) if pj else []


def gen_edit(rng: random.Random, body: dict, own_prefixes: list[str]) -> dict | None:
    r = rng.random()
    meta = body.get("metadata") if isinstance(body.get("metadata"), dict) else None
    if r < 0.45:
        root = rng.choice(["spec", "spec", "data", "rules", "newPayloadField"])
        sub = body.get(root)
        paths = [p for p in all_paths(sub)] if root in body else [()]
        p = rng.choice(paths)
        old = py_resolve(sub, list(p)) if root in body else None
        if isinstance(old, dict) and rng.random() < 0.5:
            p, old = p + (rng.choice(UNI_KEYS),), None
            new = gen_value(rng, 2)
        else:
            new = twist(rng, old)
        return {"e": "payload", "path": [root] + list(p), "value": new}
    if meta is None:
        return None
    if r < 0.7:
        labels = meta.get("labels") if isinstance(meta.get("labels"), dict) else {}
        k = rng.choice(list(labels) + ["new-label", "example.com/l2"])
        v = rng.choice(["v1", "v2", None]) if k in labels else "v1"
        return {"e": "label", "path": ["metadata", "labels", k], "value": v}
    anns = meta.get("annotations") if isinstance(meta.get("annotations"), dict) else {}
    cands = [k for k in list(anns) + ["brand-new", "example.com/brand-new", "user.example/opt"] if ordinary_annotation(k, anns, own_prefixes)]
    if not cands:
        return None
    k = rng.choice(cands)
    v = rng.choice(["n1", "n2", None]) if k in anns else "n1"
    return {"e": "annotation", "path": ["metadata", "annotations", k], "value": v}


def apply_edit(body: dict, edit: dict) -> dict:
    patch: Any = {}
    d = patch
    for key in edit["path"][:-1]:
        d = d.setdefault(key, {})
    d[edit["path"][-1]] = edit["value"]
    p = edit["path"]
    # a merge patch cannot replace a mapping by a mapping; edits of whole values are done directly.
    nb = copy.deepcopy(body)
    cur = nb
    for key in p[:-1]:
        if not isinstance(cur.get(key), dict):
            cur[key] = {}
        cur = cur[key]
    if edit["value"] is None:
        cur.pop(p[-1], None)
    else:
        cur[p[-1]] = copy.deepcopy(edit["value"])
    return nb


def eval_ess_case(K: dict, case: dict, out: Out) -> None:
    body, extra = case["body"], case["extra"]
    ds, ps = build_diffbase(K, case["diffbase"]), build_progress(K, case["progress"])
    mcfg = model_cfg(K, ds, ps)
    mextra = [parse_field(f) for f in extra]
    replay = {"kind": "essence", "diffbase": case["diffbase"], "progress": case["progress"], "extra": extra, "body": body,
              "wseed": case["wseed"]}
    if case.get("writes"):
        replay["writes"] = case["writes"]
    before = leanio.canon(body)
    res = real_essence(K, ds, ps, body, extra)
    out.evals += 1
    out.count("diffbase_cls", case["diffbase"]["cls"])
    out.count("progress_cls", case["progress"]["cls"])
    out.count("essence_result", res[0] if res[0] == "ok" else res[1])
    out.count("extra_fields", len(extra))
    if case.get("hidden_gen"):
        out.count("hidden_own_field_cases", case["hidden_gen"])
    if case["diffbase"]["cls"] == "multi":
        kinds = "".join("S" if st["cls"] == "status" else "A" for st in case["diffbase"]["storages"])
        out.count("multi_shape", kinds or "(empty)")
        spos = [i for i, ch in enumerate(kinds) if ch == "S"]
        out.count("multi_status_position", "none" if not spos else "several" if len(spos) > 1 else
                  "only" if len(kinds) == 1 else "first" if spos[0] == 0 else "last" if spos[0] == len(kinds) - 1 else "middle")
        out.count("multi_nested_with_ignored_fields", sum(1 for st in case["diffbase"]["storages"] if st["kw"].get("ignored_fields")))
        out.count("multi_annotation_prefixes", len({st["kw"].get("prefix", "(default)") for st in case["diffbase"]["storages"]
                                                     if st["cls"] == "annotations"}))
        own_locs_cfg = [list(x.field) for x in ds.storages if isinstance(x, K["diffbase"].StatusDiffBaseStorage)]
        covers = [("status field" if any(overlaps(parse_field(x), ol) for ol in own_locs_cfg) else None) for x in extra] + \
                 [("annotations" if overlaps(parse_field(x), ["metadata", "annotations"]) and
                   any(isinstance(y, K["diffbase"].AnnotationsDiffBaseStorage) for y in ds.storages) else None) for x in extra]
        out.count("multi_handler_fields", "+".join(sorted({c for c in covers if c})) or ("none cover an own location" if extra else "no handler fields"))
        metab0 = body.get("metadata") if isinstance(body.get("metadata"), dict) else {}
        anns0 = metab0.get("annotations") if isinstance(metab0.get("annotations"), dict) else {}
        carried = any(has_path(body, ol) for ol in own_locs_cfg) or any(
            k in anns0 for y in ds.storages if isinstance(y, K["diffbase"].AnnotationsDiffBaseStorage)
            for k in (f"{y.prefix}/{y.key}", f"{y.prefix}/{y.key}-ofDRS"))
        out.count("multi_body_carries_stored_state", bool(carried) or bool(case.get("writes") and case["writes"][0].get("w") == "diffbase.store"))
    if leanio.canon(body) != before:
        out.fail("oracle", "build/clear modified the body it was given", replay, {"site": "DiffBaseStorage.build", "shape": "mutates-body"})
    hidden_extra = [f for f in mextra if through_non_mapping(body, f)]
    hidden_own = [f for f in storage_fields(K, ds, ps) if through_non_mapping(body, f)]
    out.count("essence_hidden_field", ("a handler's field" if hidden_extra else "") + ("+" if hidden_extra and hidden_own else "") +
              ("a storage's field" if hidden_own else "") or "none")
    if (hidden_extra or hidden_own) and res[0] == "ok":
        out.keys.add(digest(["ess-hidden", case["diffbase"], case["progress"], extra, body]))
        # the property for this class (former F13): the hidden handler fields contribute nothing
        if hidden_extra and wellformed_meta(body):
            res_wo = real_essence(K, ds, ps, body, [f for f in extra if not through_non_mapping(body, parse_field(f))])
            if res_wo[0] != "ok" or not strict_eq(res_wo[1], res[1]):
                out.fail("oracle", "a handler's field hidden behind a non-mapping value changes the essence (it must count as absent)",
                         dict(replay, essence=res, essence_without_hidden=res_wo),
                         {"site": "DiffBaseStorage.build", "shape": "a hidden handler field is not an absent field"})
    out.ask("diffbase.build + progress.clear", ["C04.essence", mcfg, mextra, body], res, replay)
    for leaf_s, leaf_m in zip(ds.storages if isinstance(ds, K["diffbase"].MultiDiffBaseStorage) else [ds],
                              mcfg["diffbase"]["storages"] if mcfg["diffbase"]["kind"] == "multi" else [mcfg["diffbase"]]):
        if leaf_m["kind"] == "annotations":
            try:
                ks = ["ok", list(leaf_s.make_keys(leaf_s.key, body=K["bodies"].Body(body)))]
            except tuple(ERRS) as ex:
                ks = ["err", next(v for k, v in ERRS.items() if isinstance(ex, k))]
            except AttributeError:
                continue            # non-mapping metadata: `.get` on a scalar — outside the described domain
            out.ask("make_keys", ["C04.keys", mcfg["hashes"], leaf_m["v1"], leaf_m["prefix"], leaf_m["key"], body], ks, replay)
            meta0 = body.get("metadata")
            if isinstance(meta0, dict) and isinstance(meta0.get("annotations", {}), dict):
                mrng = random.Random(case["wseed"] ^ 0x5A)
                for pfx_ in {leaf_s.prefix, mrng.choice(OTHER_PREFIXES + OWN_PREFIXES)}:
                    pann = {f"{pfx_}/touch-dummy": "x"}
                    if mrng.random() < 0.2:
                        pann[f"{pfx_}/kopf-managed"] = mrng.choice(["yes", None])
                    mp = K["patches"].Patch({"metadata": {"annotations": dict(pann)}})
                    leaf_s._store_marker(prefix=pfx_, patch=mp, body=K["bodies"].Body(body))
                    out.ask("_store_marker", ["C04.marker", pfx_, meta0.get("annotations", {}), pann],
                            dict(mp["metadata"]["annotations"]), dict(replay, marker_prefix=pfx_, patch_annotations=pann))
    if res[0] != "ok":
        out.keys.add(digest(["ess-err", case["diffbase"], case["progress"], extra, body]))
        # an exception is a verdict: an object whose essence cannot be built is never processed (no handler of any kind
        # runs for it). Only bodies with malformed metadata (not a mapping: impossible on a Kubernetes API) are left out.
        if wellformed_meta(body):
            exn = {v: k.__name__ for k, v in ERRS.items()}[res[1]]
            sig = raise_signature(K, ds, ps, body, extra, exn, "DiffBaseStorage.build/ProgressStorage.clear")
            out.count("essence_raises", "the fixed F13 is back (field through a non-mapping)" if sig == SIG_F13 else f"{exn}: unexplained")
            out.fail("oracle", f"the essence of a well-formed object cannot be built: {exn} (the object is never processed)", replay, sig)
        else:
            out.count("essence_raises", "malformed metadata (not judged)")
        return
    if not wellformed_meta(body):
        out.count("essence_raises", "malformed metadata, essence built (tie only, not judged)")
        return
    E = res[1]
    metab = body.get("metadata") if isinstance(body.get("metadata"), dict) else {}
    anns = metab.get("annotations") if isinstance(metab.get("annotations"), dict) else {}
    eanns = ((E.get("metadata") or {}).get("annotations") or {}) if isinstance(E.get("metadata"), dict) else {}
    dropped = [k for k in anns if k not in eanns]
    if dropped or "status" in body or extra:
        out.keys.add(digest(["ess", case["diffbase"], case["progress"], extra, body]))
    out.count("annotations_dropped", min(len(dropped), 5))
    out.count("annotations_kept", min(len(eanns), 5))
    if len(out.samples) < 5 and dropped and len(leanio.canon(replay)) < 1500:
        out.samples.append(dict(replay, essence=E))
    # the fetched-and-cleared old essence goes through progress.clear as well: tie it on an arbitrary essence
    out.ask("progress.clear", ["C04.clear", mcfg["progress"], E], _clear(ps, E), replay)
    own = own_annotation_prefixes(K, ds, ps)
    rng = random.Random(case["wseed"])
    # ---- oracle 0: what is configured to be excluded IS excluded -----------------------------------
    # ignored_fields of the storage and of EVERY nested storage, and the own field of every StatusDiffBaseStorage,
    # are absent from the essence, whatever the handlers' fields (they are removed after the restoring).
    for ipath in ignored_paths(K, ds):
        if ipath and has_path(E, ipath):
            out.fail("oracle", f"the field {'.'.join(ipath)} is configured to be excluded (ignored_fields / the storage's own field) "
                               f"but is in the essence: its changes count as essential changes",
                     dict(replay, essence=E, excluded_field=ipath), SIG_IGNORED)
            break
    # ---- oracle 0b: the order of the nested storages does not matter ---------------------------------
    if case["diffbase"]["cls"] == "multi" and 2 <= len(case["diffbase"]["storages"]) <= 3:
        import itertools
        perms = list(itertools.permutations(range(len(case["diffbase"]["storages"]))))[1:]
        results = []
        for pm in perms:
            spec_p = {"cls": "multi", "storages": [case["diffbase"]["storages"][i] for i in pm]}
            results.append((pm, real_essence(K, build_diffbase(K, spec_p), ps, body, extra)))
        if all(r[0] == "ok" for _pm, r in results):
            out.count("multi_order", f"{len(perms) + 1} orders compared")
            for pm, r in results:
                if not strict_eq(r[1], E):
                    out.fail("oracle", "MultiDiffBaseStorage: the essence depends on the order of the nested storages "
                                       "(some nested storage's cleaning is lost)",
                             dict(replay, essence=E, order=list(pm), essence_reordered=r[1]), SIG_ORDER)
                    break
        else:
            out.count("multi_order", "some order raises (not compared)")
    # ---- oracle 1: own writes are invisible ------------------------------------------------------
    squatting = [k for k in eanns if any(k.startswith(p + "/") for p in own)]
    cur = body
    stored = False
    failed = False
    if squatting:
        out.count("own_writes", "with a foreign annotation under an own prefix")

    def attribute(w: dict, written: list, before: dict, after: dict, e_ref: Any, res_after: list, old: Any) -> dict:
        """Which known defect (if any) explains that this write changed the essence / the fetched old state."""
        changed = changed_paths(e_ref, res_after[1]) if res_after[0] == "ok" else []
        if res_after[0] == "ok" and old is not None:
            changed += changed_paths(old, res_after[1])
        hit = at_own_location(changed, own_locations(w, written))
        if hit:
            # no exemption: every storage cleans its own locations after the handlers' fields were restored
            return classify_own(K, case, ds, ps, after, w, SIG_OWNLOC)
        if any(overlaps(parse_field(x), wp) for x in extra for wp in written):
            return SIG_F8
        if w["w"] == "other-operator":
            if any(k.startswith(w["prefix"] + "/") for k in eanns) if "prefix" in w else False:
                return SIG_F11          # the other operator's first marker write hides what was visible under ITS prefix
        elif squatting:
            return SIG_F11
        if w["w"] == "adopt" and changed and res_after[0] == "ok":
            try:
                B = K["bodies"].Body
                leaves = ds.storages if isinstance(ds, K["diffbase"].MultiDiffBaseStorage) else [ds]
                names = {k for l in leaves if isinstance(l, K["diffbase"].AnnotationsDiffBaseStorage)
                         for bd in (before, after) for k in l.make_keys(l.key, body=B(bd))}
                if all(cp[:2] == ["metadata", "annotations"] and len(cp) == 3 and cp[2] in names for cp in changed):
                    return SIG_N2       # the names switched: the orphaned record is no longer an own key (restored by a handler field)
            except tuple(ERRS):
                pass
        return classify_own(K, case, ds, ps, after, w)

    for w in (case.get("writes") or gen_writes(rng, body, own)):
        try:
            nb, written = apply_write(K, ds, ps, cur, w, E)
        except tuple(ERRS) as ex:
            out.count("own_writes", f"{w['w']}: raised {type(ex).__name__}")
            failed = True
            break
        out.count("own_writes", w["w"] + ("" if written else " (empty patch)"))
        if w["w"] in STORAGE_WRITES and any(through_non_mapping(cur, wp) for wp in written):
            # the storage is configured to write below a value that is no mapping in this object (e.g. a diff-base field
            # `spec.lhc` and `spec: false`): the merge-patch REPLACES that value — not a question of change detection.
            out.count("own_writes", f"{w['w']}: the configured location is below a non-mapping value (not judged)")
            failed = True
            break
        res2 = real_essence(K, ds, ps, nb, extra)
        out.ask("diffbase.build + progress.clear (after an own write)", ["C04.essence", mcfg, mextra, nb], res2,
                dict(replay, write=w, body=nb))
        rp = dict(replay, write=w, body_before=cur, body_after=nb, essence_before=E, essence_after=res2)
        bad = res2[0] != "ok" or not strict_eq(res2[1], E)
        old = None
        if not bad and w["w"] == "diffbase.store":
            old = ds.fetch(body=K["bodies"].Body(nb))
            old = ps.clear(essence=old) if old is not None else None
            if old is None or K["diffs"].diff(old, res2[1]):
                bad = True
                rp["fetched_old"] = old
        if not bad and w["w"] == "diffbase.store":
            stored = True
        if not bad and w["w"] == "adopt" and stored:
            try:
                old = ds.fetch(body=K["bodies"].Body(nb))
                old = ps.clear(essence=old) if old is not None else None
            except (ValueError, AttributeError):
                out.count("own_writes", "adopt: the -ofDRS annotation holds garbage (not a stored essence)")
                failed = True
                break
            if old is None or K["diffs"].diff(old, res2[1]):
                out.fail("oracle", "after its adoption by a Deployment (ownerReferences only) a handled ReplicaSet has no "
                                   "last-handled state any more: it is handled as created again", dict(rp, fetched_old=old), SIG_N2)
                failed = True
                break
        if bad:
            sig = attribute(w, written, cur, nb, E, res2, old)
            who = "another Kopf-based operator's write" if w["w"] == "other-operator" else f"the framework's own write ({w['w']})"
            out.fail("oracle", f"{who} changes the essence / re-triggers handling", rp, sig)
            failed = True
            break
        cur = nb
    # ---- oracle 1b: the closed loop -----------------------------------------------------------------
    # handle -> store the last-handled state -> the patched object comes back as the next event: it must be a no-op
    # (old == new, nothing to store again), round after round, on EVERY storage configuration.
    if not failed and not any(w_.get("w") == "adopt" for w_ in (case.get("writes") or [])):
        B, P = K["bodies"].Body, K["patches"].Patch
        rounds = 0
        for rnd in range(3):
            r0 = real_essence(K, ds, ps, cur, extra)
            if r0[0] != "ok":
                break
            patch = P()
            try:
                ds.store(body=B(cur), patch=patch, essence=copy.deepcopy(r0[1]))
            except tuple(ERRS):
                break
            pj = json.loads(json.dumps(dict(patch)))
            nb = merge_patch(cur, pj)
            written = leaf_paths(pj) if pj else []
            if any(through_non_mapping(cur, wp) for wp in written):
                out.count("closed_loop", "the configured location is below a non-mapping value (not judged)")
                break
            r1 = real_essence(K, ds, ps, nb, extra)
            try:
                old = ds.fetch(body=B(nb))
                old = ps.clear(essence=old) if old is not None else None
            except (ValueError, AttributeError):
                out.count("closed_loop", "a stored-state location holds garbage (not a stored essence)")
                break
            rounds += 1
            wl = {"w": "diffbase.store"}
            rp = dict(replay, closed_loop_round=rnd, write=wl, body_before=cur, body_after=nb, essence_before=r0[1],
                      essence_after=r1, fetched_old=old)
            what = None
            if r1[0] != "ok" or not strict_eq(r1[1], r0[1]):
                what = "storing the last-handled state changes the essence: the next event is an update again (self-trigger)"
            elif old is None:
                what = "the stored last-handled state is not found in the next event: the object is created again"
            elif K["diffs"].diff(old, r1[1]):
                what = "the next event after storing the last-handled state shows a non-empty diff (self-trigger)"
            # (a re-store need not be byte-identical: the encoded essence may list its keys in another order; what must not
            #  happen is a change of the essence or a non-empty diff against the fetched state — the two conditions above.
            #  In the real flow a no-op cause stores nothing.)
            if what:
                out.fail("oracle", f"closed loop, round {rnd + 1}: {what}", rp, attribute(wl, written, cur, nb, r0[1], r1, old))
                break
            cur = nb
        out.count("closed_loop", f"{rounds} rounds")
        out.count("closed_loop_cfg", case["diffbase"]["cls"] + ("" if not extra else " + handler fields"))
    # ---- oracle 2: a single foreign edit of payload / labels / ordinary annotations counts ------
    ig = ignored_paths(K, ds) + status_clean_paths(K, ps)
    for _ in range(2):
        edit = gen_edit(rng, body, own)
        if edit is None or any(overlaps(edit["path"], p) for p in ig if p):
            out.count("foreign_edit", "skipped")
            continue
        nb = apply_edit(body, edit)
        if equiv_strict(nb, body):
            out.count("foreign_edit", "no-op")
            continue
        res2 = real_essence(K, ds, ps, nb, extra)
        out.count("foreign_edit", edit["e"])
        rp = dict(replay, edit=edit, body_after=nb, essence_before=E, essence_after=res2)
        if res2[0] != "ok":
            continue            # the edit made the body unbuildable (e.g. a scalar under a handler's field): not this oracle's subject
        if not K["diffs"].diff(E, res2[1]):
            sig = SIG_F7 if equiv_py(nb, body) else {"site": "DiffBaseStorage.build", "shape": f"foreign {edit['e']} edit not detected"}
            out.fail("oracle", f"a foreign edit of {'.'.join(edit['path'])} is not detected as a change", rp, sig)


def _clear(ps: Any, e: Any) -> list:
    try:
        return ["ok", ps.clear(essence=e)]
    except tuple(ERRS) as ex:
        return ["err", next(v for k, v in ERRS.items() if isinstance(ex, k))]


SIG_F9 = {"site": "MultiDiffBaseStorage.build", "shape": "nested build takes the essence for the body: the -ofDRS key mark is lost"}


def classify_own(K: dict, case: dict, ds: Any, ps: Any, body: dict, w: dict, default: dict | None = None) -> dict:
    if w["w"] == "other-operator" and w["prefix"].startswith("kopf.") and not is_marked_prefix(w["prefix"], []):
        return SIG_N1
    if w["w"] in ("touch", "touch-clear"):
        P = K["progress"]
        leaves = ps.storages if isinstance(ps, P.MultiProgressStorage) else [ps]
        if any(isinstance(l, P.StatusProgressStorage) and not isinstance(l, P.NoWriteStatusProgressStorage)
               and l.touch_field[:1] != ("status",) for l in leaves):
            return SIG_N3
    meta = body.get("metadata") if isinstance(body.get("metadata"), dict) else {}
    owners = meta.get("ownerReferences") or []
    drs = body.get("kind") == "ReplicaSet" and any(isinstance(o, dict) and o.get("kind") == "Deployment" for o in owners)
    if case["diffbase"]["cls"] == "multi" and drs and w["w"] == "diffbase.store":
        return SIG_F9
    return default or {"site": "DiffBaseStorage.build/ProgressStorage.clear", "shape": f"own write visible: {w['w']}"}


# ------------------------------------------------------------------------------------------------
# ONE storage instance serving a SEQUENCE of objects of mixed marking classes

SIG_SEQ = {"site": "StorageKeyFormingConvention.make_keys",
           "shape": "keys/old/diff of an object depend on the objects the storage served before"}


def _seq_objects(rng: random.Random) -> dict[str, dict]:
    spec = {"replicas": rng.choice([1, 2, 3]), "template": {"image": rng.choice(["a:1", "b:2"])}}

    def obj(kind: str, name: str, owners: list[str] | None, extra: dict | None = None) -> dict:
        m: dict[str, Any] = {"name": name, "namespace": "ns", "uid": "u-" + name, "resourceVersion": "1"}
        if owners is not None:
            m["ownerReferences"] = [{"kind": k, "name": "o-" + k.lower(), "uid": "o1", "apiVersion": "apps/v1"} for k in owners]
        if extra:
            m.update(copy.deepcopy(extra))
        return {"apiVersion": "apps/v1", "kind": kind, "metadata": m, "spec": copy.deepcopy(spec)}
    user = {"annotations": {"note": "user"}} if rng.random() < 0.5 else None
    return {"deploy": obj("Deployment", "d", None, user),
            "rs-of-deploy": obj("ReplicaSet", "d-abc", ["Deployment"], {"labels": {"app": "x"}} if rng.random() < 0.5 else None),
            "plain": obj("KopfExample", "p", None, user),
            "rs-other": obj("ReplicaSet", "r", rng.choice([["Job"], [], ["Other", "Job"]]))}


def gen_seq_case(rng: random.Random) -> dict:
    kw: dict[str, Any] = {}
    if rng.random() < 0.5:
        kw["prefix"] = rng.choice(["kopf.zalando.org", "my-op.example.com", "op.kopf.zalando.org"])
    if rng.random() < 0.3:
        kw["key"] = rng.choice(["lhc", "k" * 64, "last-handled-configuration"])
    if rng.random() < 0.3:
        kw["v1"] = rng.random() < 0.5
    pkw: dict[str, Any] = {}
    if "prefix" in kw and rng.random() < 0.8:
        pkw["prefix"] = kw["prefix"]
    names = ["deploy", "rs-of-deploy", "plain", "rs-other"]
    order = rng.sample(names, rng.choice([2, 3, 4]))
    if "rs-of-deploy" not in order:
        order.insert(rng.randrange(len(order) + 1), "rs-of-deploy")
    order += rng.sample(order, rng.choice([0, 1, 2]))          # some objects come round again
    return {"kind": "sequence", "diffbase": {"cls": "annotations", "kw": kw},
            "progress": {"cls": rng.choice(["smart", "annotations"]), "kw": pkw},
            "order": order, "oseed": rng.getrandbits(32)}


def _observe(K: dict, ds: Any, ps: Any, body: dict) -> dict:
    B = K["bodies"].Body
    keys = list(ds.make_keys(ds.key, body=B(body)))
    pkeys: list = []
    for leaf in (ps.storages if isinstance(ps, K["progress"].MultiProgressStorage) else [ps]):
        if isinstance(leaf, K["progress"].AnnotationsProgressStorage):
            pkeys.append(list(leaf.make_keys("create_fn", body=B(body))) + list(leaf.make_keys(leaf.touch_key, body=B(body))))
    old = ds.fetch(body=B(body))
    new = ds.build(body=B(body), extra_fields=[])
    old = ps.clear(essence=old) if old is not None else None
    new = ps.clear(essence=new)
    return {"keys": keys, "progress_keys": pkeys, "old": old, "new": new, "diff": canon_items(K["diffs"].diff(old, new))}


def eval_seq_case(K: dict, case: dict, out: Out) -> None:
    rng = random.Random(case["oseed"])
    objs = _seq_objects(rng)
    ds, ps = build_diffbase(K, case["diffbase"]), build_progress(K, case["progress"])     # the ONE shared instance
    mcfg = model_cfg(K, ds, ps)
    leafm = mcfg["diffbase"]
    replay = {"kind": "sequence", "diffbase": case["diffbase"], "progress": case["progress"], "order": case["order"],
              "oseed": case["oseed"]}
    handled: set[str] = set()
    rs_user_changed: dict[str, bool] = {}
    out.evals += 1
    out.count("sequence_len", len(case["order"]))
    out.count("sequence_first", case["order"][0])
    B, P = K["bodies"].Body, K["patches"].Patch
    for step, name in enumerate(case["order"]):
        body = objs[name]
        shared = _observe(K, ds, ps, body)
        fresh = _observe(K, build_diffbase(K, case["diffbase"]), build_progress(K, case["progress"]), body)
        rp = dict(replay, step=step, object=name, body=body, shared=shared, fresh=fresh, handled_before=sorted(handled))
        out.count("sequence_object", name + ("" if name not in handled else " (again)"))
        for what in ("keys", "progress_keys", "old", "diff"):
            if not strict_eq(shared[what], fresh[what]):
                out.fail("oracle", f"the {what} a shared storage gives for {name} differ from those of a fresh storage "
                                   f"(state carried over from the objects served before)", rp, SIG_SEQ)
                return
        if name not in handled and shared["old"] is not None:
            out.fail("oracle", f"a never-handled object ({name}) is not detected as a creation: old is not None", rp,
                     {"site": "AnnotationsDiffBaseStorage.fetch", "shape": "never-handled object has a last-handled state"})
            return
        if name in handled and shared["diff"] and not (name == "rs-of-deploy" and rs_user_changed.get(name)):
            out.fail("oracle", f"an unchanged, already handled object ({name}) shows an essential change", rp,
                     {"site": "DiffBaseStorage.build/fetch", "shape": "own or copied-down annotations count as a change"})
            return
        out.ask("make_keys on a shared storage", ["C04.keys", mcfg["hashes"], leafm["v1"], leafm["prefix"], leafm["key"], body],
                ["ok", shared["keys"]], rp)
        out.ask("diffbase.build + progress.clear (shared storage)", ["C04.essence", mcfg, [], body], ["ok", shared["new"]], rp)
        # the operator handles the object: progress record, last-handled state, touch — real writes
        patch = P()
        ps.store(key="create_fn", record={"started": "2020-01-01T00:00:00", "retries": 0, "success": True}, body=B(body), patch=patch)
        ds.store(body=B(body), patch=patch, essence=copy.deepcopy(shared["new"]))
        nb = merge_patch(body, json.loads(json.dumps(dict(patch))))
        nb["metadata"]["resourceVersion"] = str(int(nb["metadata"]["resourceVersion"]) + 1)
        objs[name] = nb
        handled.add(name)
        rs_user_changed.pop(name, None)
        after = _observe(K, ds, ps, nb)
        if after["diff"] or not strict_eq(after["new"], shared["new"]):
            out.fail("oracle", f"the framework's own writes on {name} (shared storage) re-trigger handling", dict(rp, after=after),
                     {"site": "DiffBaseStorage.build/fetch", "shape": "own writes visible with a shared storage"})
            return
        if name == "deploy":
            # Kubernetes copies the Deployment's annotations down to its ReplicaSets. The user's own annotations
            # are a real change of the ReplicaSet; the operator's annotations that come along must not matter.
            d_anns = nb["metadata"].get("annotations", {})
            d_user = body["metadata"].get("annotations", {})            # what the Deployment had before kopf wrote
            rs_user = copy.deepcopy(objs["rs-of-deploy"])
            if d_user:
                rs_user["metadata"].setdefault("annotations", {}).update(d_user)
            rs_full = copy.deepcopy(objs["rs-of-deploy"])
            rs_full["metadata"].setdefault("annotations", {}).update(d_anns)
            body_rs_before = objs["rs-of-deploy"]
            ref = _observe(K, ds, ps, rs_user)
            copied = _observe(K, ds, ps, rs_full)
            objs["rs-of-deploy"] = rs_full
            if d_user and not strict_eq(ref["new"], _observe(K, ds, ps, body_rs_before)["new"]):
                rs_user_changed["rs-of-deploy"] = True
            if not strict_eq(copied["new"], ref["new"]) or not strict_eq(copied["old"], ref["old"]):
                out.fail("oracle", "the operator's annotations copied down from the Deployment change the ReplicaSet's essence/old",
                         dict(rp, rs_reference=ref, rs_after=copied),
                         {"site": "CollisionEvadingConvention.mark_key", "shape": "copied-down annotations visible on the ReplicaSet"})
                return
    out.keys.add(digest(["seq", case["diffbase"], case["progress"], case["order"]]))


# ------------------------------------------------------------------------------------------------
# ONE operator-wide pair of storages serving MANY objects of several kinds. In an operator the storages are ONE instance each
# (settings.persistence.diffbase_storage / .progress_storage), every object of every served kind goes through them; so what
# they answer for an object must be a function of that object (and the configuration) alone. The objects here share annotation
# prefixes: some are ALSO served by another Kopf-based operator persisting under a company-wide prefix P (its real writes incl.
# the `P/kopf-managed` marker), others carry ordinary, human-set annotations `P/...` and no marker; that other operator comes
# and leaves; users edit the ordinary annotations. (Seeded change C04g: the marked prefixes were remembered by the storage.)

SIG_SERVED_STATE = {"site": "DiffBaseStorage.build/fetch (one instance, many objects)",
                    "shape": "what a storage answers for an object depends on the objects it served before"}
SIG_SERVED_ORD = {"site": "DiffBaseStorage.build (one instance, many objects)",
                  "shape": "an ordinary annotation of the object is not in the essence / in the last-handled state with its exact value"}
SIG_SERVED_DIFF = {"site": "DiffBaseStorage.build/fetch + diffs.diff (one instance, many objects)",
                   "shape": "diff(old, new) of a served object is not exact (does not lead from old to new / empty although something differs / "
                            "non-empty although nothing was done to the object)"}

SERVED_PREFIXES = ["example.com", "corp.io", "team.example.org", "x", "kopf.dev", "a.b.c", "other-op.example.org"]
SERVED_NAMES = ["team", "owner", "note", "sub/deep", "kopf-managed-by", "last-handled-configuration", "managed", "ключ"]
SERVED_KINDS = [("KopfExample", None), ("Deployment", None), ("ReplicaSet", ["Deployment"]), ("ReplicaSet", []), ("ConfigMap", None)]


def other_operator_writes(K: dict, body: dict, prefix: str) -> tuple[dict, list[str]]:
    """What ANOTHER Kopf-based operator persisting under `prefix` does to the object: the real writes of its real storages
    (last-handled state, touch, one progress record; the `kopf-managed` marker comes along). Returns the object and the
    annotation names that operator wrote."""
    B, P = K["bodies"].Body, K["patches"].Patch
    ods = K["diffbase"].AnnotationsDiffBaseStorage(prefix=prefix)
    ops = K["progress"].AnnotationsProgressStorage(prefix=prefix)
    patch = P()
    ods.store(body=B(body), patch=patch, essence=ops.clear(essence=ods.build(body=B(body))))
    ops.touch(body=B(body), patch=patch, value="2020-01-01T00:00:00")
    ops.store(key="their_fn", record={"started": "2020-01-01T00:00:00", "retries": 1}, body=B(body), patch=patch)
    pj = json.loads(json.dumps(dict(patch)))
    return merge_patch(body, pj), sorted(((pj.get("metadata") or {}).get("annotations") or {}))


def ordinary_view(body: dict, own_prefixes: list[str]) -> dict:
    """The ordinary annotations of an object — judged by the object's OWN annotations alone (the documented convention: a prefix is
    another Kopf operator's when THIS object carries its marker, or it is kopf.zalando.org / a sub-domain of it)."""
    anns = (body.get("metadata") or {}).get("annotations")
    anns = anns if isinstance(anns, dict) else {}
    return {k: v for k, v in anns.items() if ordinary_annotation(k, anns, own_prefixes)}


def annotations_of(e: Any) -> dict:
    a = ((e or {}).get("metadata") or {}).get("annotations") if isinstance(e, dict) and isinstance(e.get("metadata"), dict) else None
    return a if isinstance(a, dict) else {}


def gen_served_case(rng: random.Random) -> dict:
    P = rng.choice(SERVED_PREFIXES)
    prefixes = [P, P, P, rng.choice(SERVED_PREFIXES)]
    n = rng.choice([2, 2, 3, 4])
    objs = []
    for i in range(n):
        kind, owners = rng.choice(SERVED_KINDS)
        anns: dict[str, str] = {}
        for _ in range(rng.choice([0, 1, 1, 2, 3])):
            anns[rng.choice(prefixes) + "/" + rng.choice(SERVED_NAMES)] = rng.choice(["blue", "green", "", "значение", "{}"])
        if rng.random() < 0.3:
            anns["note"] = "user"
        objs.append({"kind": kind, "owners": owners, "annotations": anns, "replicas": rng.choice([1, 2, 3])})
    steps: list[dict] = []
    marked: set = set()
    for _ in range(rng.choice([4, 6, 8, 10])):
        i = rng.randrange(n)
        r = rng.random()
        if r < 0.22:
            p = rng.choice(prefixes)
            if (i, p) in marked:
                marked.discard((i, p))
                steps.append({"op": "unmark", "obj": i, "prefix": p})
            else:
                marked.add((i, p))
                steps.append({"op": "mark", "obj": i, "prefix": p})
        elif r < 0.55:
            known = sorted(objs[i]["annotations"]) + [rng.choice(prefixes) + "/" + rng.choice(SERVED_NAMES), "brand-new"]
            steps.append({"op": "edit", "obj": i, "key": rng.choice(known), "to": rng.choice(["red", "green", "v2", "", None])})
        elif r < 0.62:
            steps.append({"op": "spec", "obj": i, "replicas": rng.choice([4, 5, 6])})
        steps.append({"op": "serve", "obj": i})
    return {"kind": "served", "diffbase": copy.deepcopy(rng.choice(LIFE_DIFFBASE)), "progress": copy.deepcopy(rng.choice(LIFE_PROGRESS)),
            "objects": objs, "steps": steps}


def _observe_served(K: dict, ds: Any, ps: Any, body: dict) -> dict:
    B = K["bodies"].Body
    old = ds.fetch(body=B(body))
    new = ds.build(body=B(body), extra_fields=[])
    old = ps.clear(essence=old) if old is not None else None
    new = ps.clear(essence=new)
    return {"old": old, "new": new, "diff": canon_items(K["diffs"].diff(old, new))}


def eval_served_case(K: dict, case: dict, out: Out) -> None:
    ds, ps = build_diffbase(K, case["diffbase"]), build_progress(K, case["progress"])     # the ONE pair of instances of the operator
    own = own_annotation_prefixes(K, ds, ps)
    mcfg = model_cfg(K, ds, ps)
    B, P = K["bodies"].Body, K["patches"].Patch
    bodies: list[dict] = []
    for i, o in enumerate(case["objects"]):
        m: dict[str, Any] = {"name": f"o{i}", "namespace": "ns", "uid": f"u{i}", "resourceVersion": "1", "creationTimestamp": "2020-01-01T00:00:00Z"}
        if o.get("owners") is not None:
            m["ownerReferences"] = [{"kind": k, "name": "o-" + k.lower(), "uid": "o1", "apiVersion": "apps/v1"} for k in o["owners"]]
        # (a user's annotation under the operator's OWN prefix is the subject of the open finding C04-F11 at the pure level: not this class)
        anns0 = {k: v for k, v in (o.get("annotations") or {}).items() if k.split("/", 1)[0] not in own or "/" not in k}
        if anns0:
            m["annotations"] = anns0
        bodies.append({"apiVersion": "example.com/v1", "kind": o["kind"], "metadata": m, "spec": {"replicas": o.get("replicas", 1)}})
    theirs: dict[tuple, list[str]] = {}                 # (object, prefix) -> the annotation names the other operator wrote there
    handled: dict[int, dict] = {}                       # object -> its ordinary annotations / spec when it was handled last
    touched: set[int] = set()                           # objects something was done to since they were handled last
    served_keys: list[list[str]] = []                   # the annotation names of the objects served so far, in order
    out.evals += 1
    out.count("served_objects", len(bodies))
    out.count("served_diffbase", case["diffbase"]["cls"])
    interesting = False
    for step, s in enumerate(case["steps"]):
        i = s["obj"]
        body = bodies[i]
        rp = {"kind": "served", "diffbase": case["diffbase"], "progress": case["progress"], "objects": case["objects"],
              "steps": case["steps"][:step + 1], "failing_step": step}
        if s["op"] == "mark":
            if s["prefix"] in own:
                continue                                 # (another operator under OUR prefix: not this class)
            bodies[i], names = other_operator_writes(K, body, s["prefix"])
            theirs[(i, s["prefix"])] = names
            touched.add(i)
            out.count("served_op", "another Kopf operator (prefix P) starts serving an object")
            continue
        if s["op"] == "unmark":
            names = theirs.pop((i, s["prefix"]), None)
            if names is None:
                continue
            anns = body["metadata"].get("annotations") or {}
            for k in names:
                anns.pop(k, None)
            if not anns:
                body["metadata"].pop("annotations", None)
            touched.add(i)
            out.count("served_op", "the other operator leaves the object (its annotations and marker removed)")
            continue
        if s["op"] == "edit":
            if "/" in s["key"] and s["key"].split("/", 1)[0] in own:
                continue                                 # (under the operator's own prefix: finding C04-F11's class)
            anns = body["metadata"].setdefault("annotations", {})
            before = ordinary_view(body, own)
            if s["to"] is None:
                anns.pop(s["key"], None)
            else:
                anns[s["key"]] = s["to"]
            if not anns:
                body["metadata"].pop("annotations", None)
            touched.add(i)
            out.count("served_op", "a user edits an ordinary annotation" if before != ordinary_view(body, own) else
                      "a user edits an annotation under a prefix marked on this object / to the same value")
            continue
        if s["op"] == "spec":
            body["spec"] = {"replicas": s["replicas"]}
            touched.add(i)
            out.count("served_op", "a user edits the spec")
            continue
        # ---- the operator's storages serve the object: what _detect_causes computes, then the own writes of a finished handling ---
        body = copy.deepcopy(body)                       # (the later steps edit the object in place)
        shared = _observe_served(K, ds, ps, body)
        fresh = _observe_served(K, build_diffbase(K, case["diffbase"]), build_progress(K, case["progress"]), body)
        rp = dict(rp, object=i, body=body, shared=shared)
        ordn = ordinary_view(body, own)
        others_marked = any(j != i for (j, _p) in theirs)
        out.count("served_op", "serve: an object with ordinary annotations while ANOTHER object carries a marker" if ordn and others_marked
                  else "serve: " + ("first time" if i not in handled else "again, untouched" if i not in touched else "again, after a foreign change"))
        interesting = interesting or bool(ordn and others_marked)
        # (1) from the property text alone: every ordinary annotation of the object is part of its essence, with its exact value
        got = annotations_of(shared["new"])
        missing = {k: v for k, v in ordn.items() if k not in got or not strict_eq(got[k], v)}
        if missing:
            out.fail("oracle", f"ordinary annotation(s) {sorted(missing)} of object {i} are not in its essence (their change would not count); "
                               f"the object carries no marker for their prefix", dict(rp, missing=missing), SIG_SERVED_ORD)
            return
        if i in handled:
            # (2) the last-handled state holds what was handled, the diff is exact, and it is empty iff nothing was done to the object
            old = shared["old"]
            lost = {k: v for k, v in handled[i]["ordinary"].items() if old is None or k not in annotations_of(old) or not strict_eq(annotations_of(old)[k], v)}
            if old is None or lost:
                out.fail("oracle", f"the last-handled state of object {i} " + ("is gone" if old is None else f"lacks the ordinary annotation(s) {sorted(lost)} handled last time"),
                         dict(rp, handled_last=handled[i]), SIG_SERVED_ORD)
                return
            if not strict_eq(py_apply(shared["diff"], old), shared["new"]) or (not shared["diff"]) != strict_eq(old, shared["new"]):
                out.fail("oracle", f"diff(old, new) of object {i} does not lead from old to new / is empty although they differ", rp, SIG_SERVED_DIFF)
                return
            changed = ordn != handled[i]["ordinary"] or not strict_eq(body["spec"], handled[i]["spec"])
            if changed and not shared["diff"]:
                out.fail("oracle", f"an ordinary annotation / the spec of object {i} was changed since it was handled, but the diff is empty "
                                   f"(no update)", dict(rp, handled_last=handled[i], ordinary_now=ordn), SIG_SERVED_DIFF)
                return
            if i not in touched and shared["diff"]:
                out.fail("oracle", f"nothing was done to object {i} since it was handled, but its diff is not empty (handling triggers itself)",
                         rp, SIG_SERVED_DIFF)
                return
        elif shared["old"] is not None and not any(j == i for (j, _p) in theirs):
            out.fail("oracle", f"a never-handled object ({i}) has a last-handled state", rp,
                     {"site": "DiffBaseStorage.fetch", "shape": "never-handled object has a last-handled state"})
            return
        # (3) statelessness: the operator's long-lived instances answer as fresh ones do
        for what in ("new", "old", "diff"):
            if not strict_eq(shared[what], fresh[what]):
                out.fail("oracle", f"the {what} the operator's storage gives for object {i} differs from that of a fresh storage: "
                                   f"it depends on the objects served before", dict(rp, fresh=fresh), SIG_SERVED_STATE)
                return
        out.ask("diffbase.build + progress.clear (one storage serving many objects)", ["C04.essence", mcfg, [], body], ["ok", shared["new"]], rp)
        leaf0 = ds.storages[0] if isinstance(ds, K["diffbase"].MultiDiffBaseStorage) and ds.storages else ds
        detect = getattr(leaf0, "_detect_marked_prefixes", None)   # the anchored mechanism, as a method of the long-lived instance
        if callable(detect):
            ks = sorted(annotations_of(body))
            out.ask("StorageKeyMarkingConvention._detect_marked_prefixes of a storage that served other objects before",
                    ["C04.served", "stateless", list(served_keys), ks], sorted(set(detect(ks))), rp)
            served_keys.append(ks)
        # the handling finishes: progress record, last-handled state — the real writes, merged as the API would
        patch = P()
        ps.store(key="create_fn", record={"started": "2020-01-01T00:00:00", "retries": 0, "success": True}, body=B(body), patch=patch)
        ds.store(body=B(body), patch=patch, essence=copy.deepcopy(shared["new"]))
        nb = copy.deepcopy(merge_patch(body, json.loads(json.dumps(dict(patch)))))
        nb["metadata"]["resourceVersion"] = str(int(nb["metadata"]["resourceVersion"]) + 1)
        bodies[i] = nb
        handled[i] = {"ordinary": ordinary_view(nb, own), "spec": copy.deepcopy(nb["spec"])}
        touched.discard(i)
        after = _observe_served(K, ds, ps, nb)
        if after["diff"] or not strict_eq(after["new"], shared["new"]):
            out.fail("oracle", f"the framework's own writes on object {i} (one storage, many objects) re-trigger handling", dict(rp, after=after),
                     {"site": "DiffBaseStorage.build/fetch", "shape": "own writes visible with a shared storage"})
            return
    if interesting:
        out.keys.add(digest(["served", case["diffbase"], case["progress"], case["objects"], case["steps"]]))


# ------------------------------------------------------------------------------------------------
# what the handlers RECEIVE: one real processing cycle (process_resource_causes) with several
# change handlers, whole-object and field= mixed, under the all_at_once / asap lifecycles

SIG_KW = {"site": "execution.execute_handlers_once/invoke_handler",
          "shape": "old/new/diff received by a handler are not those of its field (or of the whole object)"}

LOOP_FIELDS = [None, None, "spec", "spec.field", "spec.n", "spec.a", "spec.a.b", "spec.list", "metadata.labels", "metadata.labels.app",
               "spec.missing.deep", ["spec", "k.dot"], "data"]


def gen_loop_case(rng: random.Random) -> dict:
    spec_old = {"field": gen_value(rng, 3), "n": rng.choice(INTS), "a": {"b": gen_scalar(rng), "c": rng.choice(INTS)},
                "list": [gen_scalar(rng) for _ in range(rng.choice([0, 1, 2]))], "k.dot": gen_scalar(rng)}
    old = {"apiVersion": "kopf.dev/v1", "kind": "KopfExample",
           "metadata": {"name": "obj", "namespace": "ns", "uid": "u1", "resourceVersion": "7",
                        "labels": {"app": rng.choice(["a", "b"]), "tier": "x"}},
           "spec": spec_old, "data": {"k": rng.choice(UNI_STRS)}}
    new = copy.deepcopy(old)
    tags: list[str] = []
    for _ in range(rng.choice([1, 2, 2, 3, 4])):
        root = rng.choice(["spec", "spec", "spec", "data", "labels"])
        if root == "labels":
            new["metadata"]["labels"] = mutate(rng, new["metadata"]["labels"], tags)
            if not isinstance(new["metadata"]["labels"], dict):
                new["metadata"]["labels"] = {"app": "c"}
            new["metadata"]["labels"] = {k: v for k, v in new["metadata"]["labels"].items() if isinstance(v, str)}
        else:
            new[root] = mutate(rng, new[root], tags) if isinstance(new[root], dict) else {"k": "v2"}
            if not isinstance(new[root], dict):
                new[root] = {"replaced": True}
    hs = []
    for i in range(rng.choice([2, 3, 3, 4, 5])):
        hs.append({"id": f"h{i}", "deco": rng.choice(["update", "update", "field"]), "field": rng.choice(LOOP_FIELDS)})
    for h in hs:
        if h["deco"] == "field" and h["field"] is None:
            h["field"] = "spec"
    return {"kind": "cycle", "old": old, "new": new, "handlers": hs,
            "lifecycle": rng.choice(["all_at_once", "all_at_once", "all_at_once", "asap", "shuffled", "one_by_one"]),
            "lseed": rng.getrandbits(32)}


def _loop_env():
    import kopf
    from kopf._cogs.configs import configuration
    from kopf._cogs.structs import references
    from kopf._core.actions import lifecycles
    from kopf._core.engines import indexing
    from kopf._core.intents import registries
    from kopf._core.reactor import inventory, processing
    return locals()


async def _run_cycle(K: dict, E: dict, case: dict, calls: list) -> dict:
    import logging
    kopf = E["kopf"]
    registry = E["registries"].OperatorRegistry()
    settings = E["configuration"].OperatorSettings()
    settings.posting.enabled = False
    resource = E["references"].Resource("kopf.dev", "v1", "kopfexamples", namespaced=True)

    def mk(hid: str):
        async def fn(old, new, diff, **_: Any) -> None:
            calls.append({"id": hid, "old": copy.deepcopy(old), "new": copy.deepcopy(new), "diff": canon_items(diff)})
        fn.__name__ = hid
        return fn
    for h in case["handlers"]:
        f = tuple(h["field"]) if isinstance(h["field"], list) else h["field"]
        if h["deco"] == "field":
            kopf.on.field("kopf.dev", "v1", "kopfexamples", id=h["id"], field=f, registry=registry)(mk(h["id"]))
        else:
            kopf.on.update("kopf.dev", "v1", "kopfexamples", id=h["id"], field=f, registry=registry)(mk(h["id"]))
    ds, ps = settings.persistence.diffbase_storage, settings.persistence.progress_storage
    extra = registry._changing.get_extra_fields(resource=resource)
    B, P = K["bodies"].Body, K["patches"].Patch
    e_old = ps.clear(essence=ds.build(body=B(case["old"]), extra_fields=extra))
    patch = P()
    ds.store(body=B(case["new"]), patch=patch, essence=copy.deepcopy(e_old))
    body = merge_patch(case["new"], json.loads(json.dumps(dict(patch))))
    e_old = json.loads(json.dumps(e_old))            # what the operator will read back
    e_new = ps.clear(essence=ds.build(body=B(body), extra_fields=extra))
    logger = logging.getLogger("verif.c04.loop")
    logger.setLevel(logging.CRITICAL)
    random.seed(case["lseed"])                         # lifecycles.shuffled/randomized use the global PRNG
    lifecycle = getattr(E["lifecycles"], case["lifecycle"])
    memory = E["inventory"].ResourceMemory()
    await E["processing"].process_resource_causes(
        lifecycle=lifecycle, indexers=E["indexing"].OperatorIndexers(), registry=registry, settings=settings,
        resource=resource, raw_event={"type": "MODIFIED", "object": body}, body=B(body), patch=P(), memory=memory,
        local_logger=logger, event_logger=logger, stream_pressure=None, operator_paused=None, consistency_time=None)
    return {"e_old": e_old, "e_new": e_new, "body": body}


def eval_loop_cases(K: dict, cases: list[dict], out: Out) -> None:
    import asyncio
    E = _loop_env()

    async def main() -> None:
        for case in cases:
            calls: list = []
            try:
                ctxv = await _run_cycle(K, E, case, calls)
            except Exception as ex:  # noqa: BLE001 — the code's own exception is a verdict, the harness's is re-raised
                frame = kopf_frame(ex)
                if frame is None:
                    raise
                out.count("cycle", f"raised {type(ex).__name__}")
                extras = [parse_field(h["field"]) for h in case["handlers"] if h["field"]]
                sig = SIG_F13 if isinstance(ex, TypeError) and any(through_non_mapping(b, f) for f in extras for b in (case["old"], case["new"])) \
                    else {"site": frame, "shape": f"raises {type(ex).__name__} on a well-formed body"}
                out.fail("oracle", f"the real processing cycle raised {type(ex).__name__} in {frame}: the object cannot be processed",
                         {"kind": "cycle", "old": case["old"], "new": case["new"], "handlers": case["handlers"],
                          "lifecycle": case["lifecycle"], "lseed": case["lseed"]}, sig)
                continue
            guarded(out, "cycle", case, lambda: _judge_cycle(K, case, ctxv, calls, out))
    asyncio.run(main())


def _judge_cycle(K: dict, case: dict, ctxv: dict, calls: list, out: Out) -> None:
    out.evals += 1
    replay = {"kind": "cycle", "old": case["old"], "new": case["new"], "handlers": case["handlers"],
              "lifecycle": case["lifecycle"], "lseed": case["lseed"]}
    e_old, e_new = ctxv["e_old"], ctxv["e_new"]
    whole = canon_items(K["diffs"].diff(e_old, e_new))
    out.count("cycle_lifecycle", case["lifecycle"])
    out.count("cycle_calls", min(len(calls), 6))
    by_id = {h["id"]: h for h in case["handlers"]}
    for pos, c in enumerate(calls):
        h = by_id[c["id"]]
        f = parse_field(h["field"])
        exp_old, exp_new = py_resolve(e_old, f) if f else e_old, py_resolve(e_new, f) if f else e_new
        rp = dict(replay, call=c, position=pos, calls_before=[x["id"] for x in calls[:pos]], essence_old=e_old, essence_new=e_new)
        out.count("cycle_handler", ("field" if f else "whole") + ("" if pos == 0 else " after " +
                  ("field" if parse_field(by_id[calls[pos - 1]["id"]]["field"]) else "whole")))
        bad = None
        sigk = SIG_KW
        if not strict_eq(c["old"], exp_old) or not strict_eq(c["new"], exp_new):
            bad = "old/new"
        elif not strict_eq(py_apply(c["diff"], c["old"]), c["new"]):
            bad = "diff does not lead from old to new"
            sigk = _sig_for(py_apply(c["diff"], c["old"]), c["new"], SIG_KW["shape"], SIG_KW["site"])
        elif (not c["diff"]) != strict_eq(c["old"], c["new"]):
            bad = "diff empty iff unchanged"
            sigk = _sig_for(c["old"], c["new"], SIG_KW["shape"], SIG_KW["site"])
        if bad:
            out.fail("oracle", f"handler {c['id']} (field={h['field']!r}, #{pos + 1} of the cycle, lifecycle {case['lifecycle']}) "
                               f"received wrong kwargs: {bad}", rp, sigk)
            if sigk == SIG_KW:
                return
        out.ask("kwargs diff of a handler vs. reduce of the whole diff", ["C04.reduce", whole, f], c["diff"], rp)
    if calls:
        out.keys.add(digest(["cycle", case["handlers"], case["lifecycle"], case["old"], case["new"]]))


# ------------------------------------------------------------------------------------------------
# the LIFE of one object under the real processing core: creation -> quiet -> edit -> quiet.
# Every event goes through the real `process_resource_causes` of ONE registry/settings/memory, with generated
# storages (not only the defaults), handlers of several kinds (on.create / on.update / on.field, with and without
# field=, on.event with field=, handlers of ANOTHER resource); every cycle's patch is applied with the oracle's own
# RFC 7386 merge and comes back as the next event, until nothing is sent any more. Judged (white-box hunt, m1-m9):
#   * WHICH handlers are called — exactly those whose (field of the) essence changed, each once;
#   * the kwargs of every call (old / new / diff, whole or narrowed), also on creation (old is None);
#   * what the cycle leaves behind: the stored last-handled state IS the essence of the object, own writes did
#     not change the essence, and an event without an essential change (the object again, a system-metadata bump,
#     a foreign status write, another Kopf operator's write) calls nobody and sends nothing;
#   * an exception of the real code is a verdict (the object cannot be processed), never a skipped case.

# C04-F12 (fixed by kopf 8d1358b) and C04-F13 (fixed by kopf 571b1b2): the signatures stay, they name the class when it comes back
SIG_F12 = {"site": "processing.process_changing_cause/registries._matches_field_changes",
           "shape": "Python == on old/new: a bool<->number change is an update that is never recorded as handled, and no change for a field handler"}
SIG_F13 = {"site": "dicts.cherrypick/dicts.remove",
           "shape": "a handler's or storage's field passes through a non-mapping value: TypeError, the object is never processed"}
SIG_SELECT = {"site": "registries.match/causes.detect_changing_cause",
              "shape": "a handler whose (field of the) essence changed is not called, or one whose did not change is called"}
SIG_SETTLE = {"site": "processing.process_changing_cause",
              "shape": "after a finished cycle the stored last-handled state is not the essence of the object"}
SIG_QUIET = {"site": "processing._detect_causes", "shape": "an event without an essential change calls handlers or sends a patch"}
SIG_OWNVIS = {"site": "processing._detect_causes", "shape": "the framework's own writes of a real cycle change the essence"}

LIFE_DIFFBASE = [{"cls": "annotations", "kw": {}}, {"cls": "annotations", "kw": {}}, {"cls": "annotations", "kw": {}},
                 {"cls": "annotations", "kw": {"prefix": "my-op.example.com"}},
                 {"cls": "annotations", "kw": {"prefix": "kopf.dev", "key": "lhc", "v1": False}},
                 {"cls": "annotations", "kw": {"ignored_fields": ["spec.ignored"]}},
                 {"cls": "status", "kw": {}}, {"cls": "status", "kw": {"field": "status.lhc", "ignored_fields": ["spec.ignored"]}},
                 {"cls": "multi", "storages": [{"cls": "status", "kw": {"field": "status.diff-base"}}, {"cls": "annotations", "kw": {}}]},
                 {"cls": "multi", "storages": [{"cls": "annotations", "kw": {"prefix": "my-op.example.com"}}, {"cls": "status", "kw": {}}]}]
LIFE_PROGRESS = [{"cls": "smart", "kw": {}}, {"cls": "smart", "kw": {}}, {"cls": "smart", "kw": {}},
                 {"cls": "smart", "kw": {"prefix": "my-op.example.com"}},
                 {"cls": "annotations", "kw": {"prefix": "my-op.example.com"}},
                 {"cls": "annotations", "kw": {"prefix": "kopf.dev", "verbose": True}},
                 {"cls": "status", "kw": {}}, {"cls": "status", "kw": {"name": "myop"}},
                 {"cls": "status", "kw": {"field": "status.progress", "touch_field": "status.dummy"}},
                 {"cls": "multi", "storages": [{"cls": "annotations", "kw": {}}, {"cls": "status", "kw": {}}]}]
LIFE_FIELDS = [None, None, None, "spec", "spec.field", "spec.n", "spec.flag", "spec.a", "spec.a.b", "spec.list", "metadata.labels",
               "metadata.labels.app", "spec.missing.deep", ["spec", "k.dot"], "data", "status.phase", "status.phase", "status",
               "status.kopf", "status.conditions"]
LIFE_OTHER_FIELDS = ["status", "spec.zzz", "metadata.labels", "status.phase", "spec"]
LIFE_ANNOTATIONS = [{}, {}, {"plain": "v"}, {"example.com/owner": "me", "kubectl.kubernetes.io/last-applied-configuration": "{}\n"},
                    {"other.io/kopf-managed": "yes", "other.io/state": "{\"a\":1}"}, {"note": "значение"}]
FALSY = [0, False, "", {}, []]
LIFE_PROBES = ["same", "sysmeta", "foreign-status", "other-operator"]
OTHER_RESOURCE = ("kopf.dev", "v1", "others")
LIFE_MODEL_TIE = True      # the model ops the model ops C04.detect / C04.selected / C04.after (Model/C04_Cycle.lean)


def gen_life_case(rng: random.Random) -> dict:
    spec: dict[str, Any] = {"field": gen_value(rng, 3), "n": rng.choice(INTS), "flag": rng.choice([True, False, 0, 1]),
                            "a": {"b": gen_scalar(rng), "c": rng.choice(INTS)},
                            "list": [gen_scalar(rng) for _ in range(rng.choice([0, 1, 2]))], "k.dot": gen_scalar(rng), "ignored": "x"}
    for k in ("n", "flag", "a", "list", "field"):
        r = rng.random()
        if r < 0.12:
            del spec[k]                                          # absent now: may APPEAR with the edit
        elif r < 0.24:
            spec[k] = rng.choice(FALSY)                          # present and falsy from the start
    if rng.random() < 0.04:
        spec["a"] = rng.choice(["str", 5, [], None])             # a non-mapping on the way to spec.a.b (former finding F13: an absent field)
    meta: dict[str, Any] = {"name": "obj", "namespace": "ns", "uid": "u1", "resourceVersion": "7", "generation": 1,
                            "creationTimestamp": "2020-01-01T00:00:00Z", "labels": {"app": rng.choice(["a", "b"]), "tier": "x"}}
    if rng.random() < 0.15:
        del meta["labels"]
    anns = dict(rng.choice(LIFE_ANNOTATIONS))
    if anns:
        meta["annotations"] = anns
    body: dict[str, Any] = {"apiVersion": "kopf.dev/v1", "kind": rng.choice(["KopfExample", "KopfExample", "ReplicaSet"]),
                            "metadata": meta, "spec": spec, "data": {"k": rng.choice(UNI_STRS)}}
    if body["kind"] == "ReplicaSet" and rng.random() < 0.7:
        meta["ownerReferences"] = [{"kind": "Deployment", "name": "d", "uid": "d1", "apiVersion": "apps/v1", "controller": True}]
    if rng.random() < 0.65:
        st: dict[str, Any] = {"phase": rng.choice(["Pending", "Running", "", 0]), "other": 1}
        if rng.random() < 0.25:
            st["kopf"] = {"progress": {"gone_fn": {"started": "2020-01-01T00:00:00", "retries": 0}}, "dummy": "2020-01-01"}
        elif rng.random() < 0.06:
            st["kopf"] = rng.choice(["overwritten", 5, []])      # the storages' own stanza holds a foreign non-mapping value
        if rng.random() < 0.25:
            st["conditions"] = [{"type": "Ready", "status": "True"}]
        body["status"] = st
    # ---- the edit (what a user / another controller does to the object between the two handling cycles) -------
    tags: list[str] = []
    edit: dict[str, Any] = {}
    r = rng.random()
    if r < 0.10:
        f = spec.get("flag")
        if isinstance(f, bool):
            kind, flipped = "bool<->number only", int(f)
        elif isinstance(f, int) and f in (0, 1):
            kind, flipped = "bool<->number only", bool(f)
        else:
            kind, flipped = "payload", True
        edit["spec"] = dict(spec, flag=flipped)
    elif r < 0.22:
        kind = "status only"
        edit["status"] = {"phase": rng.choice(["Running", "Failed", "", None])}
    elif r < 0.27:
        kind = "nothing essential"
        edit["status"] = {"other": 2}
    elif r < 0.40:
        kind = "a field appears"
        absent = [k for k in ("n", "flag", "a", "list", "field", "missing") if k not in spec] or ["missing"]
        k = rng.choice(absent)
        v: Any = rng.choice(FALSY + [1, "v", True])
        edit["spec"] = dict(spec, **{k: ({"deep": v} if k == "missing" else {"b": v} if k == "a" and rng.random() < 0.5 else v)})
    elif r < 0.48:
        kind = "a field disappears"
        present = [k for k in ("n", "flag", "a", "list", "field") if k in spec] or ["k.dot"]
        edit["spec"] = {k: v for k, v in spec.items() if k != rng.choice(present)}
    else:
        kind = "payload"
        new_spec, new_data, new_labels = copy.deepcopy(spec), copy.deepcopy(body["data"]), copy.deepcopy(meta.get("labels", {}))
        for _ in range(rng.choice([1, 2, 2, 3])):
            root = rng.choice(["spec", "spec", "spec", "data", "labels"])
            if root == "labels":
                new_labels = mutate(rng, new_labels, tags)
                new_labels = {k: v for k, v in new_labels.items() if isinstance(v, str)} if isinstance(new_labels, dict) else {"app": "c"}
            elif root == "data":
                new_data = mutate(rng, new_data, tags)
                new_data = new_data if isinstance(new_data, dict) else {"k": "v2"}
            else:
                new_spec = mutate(rng, new_spec, tags)
                new_spec = new_spec if isinstance(new_spec, dict) else {"replaced": True}
        edit.update({"spec": new_spec, "data": new_data, "labels": new_labels})
        if rng.random() < 0.2:
            edit["status"] = {"phase": "Running"}
    hs: list[dict] = []
    for i in range(rng.choice([1, 2, 3, 3, 4, 5])):
        deco = rng.choice(["create", "update", "update", "field", "field", "resume", "delete"])
        f = rng.choice(LIFE_FIELDS)
        if deco == "field" and f is None:
            f = rng.choice(["spec", "spec.flag", "spec.n"])
        hs.append({"id": f"h{i}", "res": "main", "deco": deco, "field": f})
    for i in range(rng.choice([0, 0, 1, 2])):
        hs.append({"id": f"o{i}", "res": "other", "deco": rng.choice(["update", "field", "event", "create"]),
                   "field": rng.choice(LIFE_OTHER_FIELDS)})
    if rng.random() < 0.25:
        hs.append({"id": "ev", "res": "main", "deco": "event", "field": rng.choice([None, "status.phase", "spec.n", "status.other"])})
    # ---- afterwards: the operator restarts (the object unchanged, or edited while the operator was down), the object is deleted
    restart = rng.choice([None, "same", "same", "edited"])
    base_spec = edit.get("spec", spec)
    edit2 = rng.choice([{"spec": dict(base_spec, n=12345)}, {"labels": {"app": "z"}}, {"spec": dict(base_spec, restarted={"deep": True})},
                        {"status": {"phase": "Restarted"}}])
    case = {"kind": "life", "diffbase": copy.deepcopy(rng.choice(LIFE_DIFFBASE)), "progress": copy.deepcopy(rng.choice(LIFE_PROGRESS)),
            "body": body, "edit": edit, "edit_kind": kind, "handlers": hs, "restart": restart, "edit2": edit2,
            "delete": rng.random() < 0.4,
            "lifecycle": rng.choice(["all_at_once", "all_at_once", "asap", "shuffled", "one_by_one"]),
            "probes": [rng.choice(LIFE_PROBES), rng.choice(LIFE_PROBES)], "lseed": rng.getrandbits(32)}
    # ---- the operator serves OTHER objects too (one registry, one settings object = one pair of storages, a memory per object):
    # mates that another Kopf-based operator persisting under a company-wide prefix P also serves (its real writes + marker), while
    # THIS object carries ordinary, human-set annotations under the same P and no marker; a user edits those.
    if rng.random() < 0.35:
        taken = spec_prefixes(case["diffbase"]) + spec_prefixes(case["progress"]) + ["other-op.example.org"]
        P = rng.choice([p for p in SERVED_PREFIXES if p not in taken])
        mine = {f"{P}/{n}": rng.choice(["blue", "", "значение"]) for n in rng.sample(SERVED_NAMES, rng.choice([1, 1, 2]))}
        meta["annotations"] = dict(meta.get("annotations") or {}, **mine)
        case["mates"] = [{"name": f"mate{j}", "prefix": rng.choice([P, P, P, "corp.io"]), "when": rng.choice(["before", "between", "both", "before"]),
                          "res": rng.choice(["main", "main", "other"]),
                          "annotations": rng.choice([{}, {}, {f"{P}/team": "theirs"}])} for j in range(rng.choice([1, 1, 2]))]
        if rng.random() < 0.7:
            k = rng.choice(sorted(mine) + [f"{P}/brand-new"])
            case["edit"] = {"annotations": {k: rng.choice(["green", "red", None] if k in mine else ["green"])}}
            if rng.random() < 0.3:
                case["edit"]["spec"] = dict(spec, n=4321)
            case["edit_kind"] = "ordinary annotation (prefix shared with a mate another Kopf operator serves)"
    elif rng.random() < 0.08 and meta.get("annotations"):
        k = rng.choice(sorted(meta["annotations"]))
        case["edit"] = {"annotations": {k: rng.choice(["edited", None])}}
        case["edit_kind"] = "annotation"
    return case


def spec_prefixes(spec: dict) -> list[str]:
    """The annotation prefixes a storage spec (diff-base or progress) makes the operator's own."""
    if spec.get("cls") == "multi":
        return [p for s in spec["storages"] for p in spec_prefixes(s)]
    return [spec.get("kw", {}).get("prefix", "kopf.zalando.org")]


def mate_body(K: dict, m: dict) -> dict:
    body = {"apiVersion": "kopf.dev/v1", "kind": "KopfExample",
            "metadata": {"name": m["name"], "namespace": "ns", "uid": "u-" + m["name"], "resourceVersion": "3", "generation": 1,
                         "creationTimestamp": "2020-01-01T00:00:00Z", "labels": {"app": "mate"}},
            "spec": {"field": 1, "n": 1, "flag": True, "a": {"b": 1, "c": 2}, "list": [1]}, "data": {"k": "v"}, "status": {"phase": "Running"}}
    if m.get("annotations"):
        body["metadata"]["annotations"] = dict(m["annotations"])
    return other_operator_writes(K, body, m["prefix"])[0]


ABSENT = "\0absent"       # a marker no generated value equals


def resolve_abs(d: Any, path: list) -> Any:
    for k in path:
        if not isinstance(d, dict) or k not in d:
            return ABSENT
        d = d[k]
    return d


def field_differs(eo: Any, en: Any, f: list) -> bool:
    """Does the value at the field differ between two essences, as JSON (absent is not null, true is not 1)?"""
    a, b = resolve_abs(eo, f), resolve_abs(en, f)
    if a is ABSENT or b is ABSENT:
        return not (a is ABSENT and b is ABSENT)
    return not strict_eq(a, b)


def through_non_mapping(body: Any, path: list) -> bool:
    """Is some proper prefix of the path present in the body with a non-mapping value? (dicts.resolve without a default
    and dicts.remove raise TypeError exactly then: the class of the former finding F13 — since kopf 571b1b2 the callers in
    build/clear treat it as an absent field)"""
    cur = body
    for k in path[:-1]:
        if not isinstance(cur, dict) or k not in cur:
            return False
        cur = cur[k]
        if not isinstance(cur, dict):
            return True
    return False


def storage_fields(K: dict, ds: Any, ps: Any) -> list[list[str]]:
    """the status-like locations the storages themselves remove with dicts.remove (own fields, touch fields, ignored fields)."""
    return [p for p in ignored_paths(K, ds) + status_clean_paths(K, ps) if p]


def own_status_locations(K: dict, ds: Any, ps: Any) -> list[list[str]]:
    """the status-like locations the storages themselves WRITE (the diff-base's own field, the progress field, the touch field)."""
    d = K["diffbase"]
    leaves = ds.storages if isinstance(ds, d.MultiDiffBaseStorage) else [ds]
    return [list(x.field) for x in leaves if isinstance(x, d.StatusDiffBaseStorage)] + status_clean_paths(K, ps)


def wellformed_meta(body: Any) -> bool:
    m = body.get("metadata") if isinstance(body, dict) else None
    if "metadata" in body and not isinstance(m, dict):
        return False
    m = m or {}
    return all(isinstance(m.get(k, {}), dict) for k in ("labels", "annotations")) and \
        isinstance(m.get("ownerReferences", []), list) and all(isinstance(o, dict) and "kind" in o for o in m.get("ownerReferences", []))


def raise_signature(K: dict, ds: Any, ps: Any, body: Any, extra: list, ex_name: str, where: str) -> dict:
    """Which finding's class (if any) the exception belongs to (C04-F13 is fixed: its signature marks a regression)."""
    if ex_name == "TypeError" and any(through_non_mapping(body, parse_field(p)) for p in list(extra) + storage_fields(K, ds, ps)):
        return SIG_F13
    return {"site": where, "shape": f"raises {ex_name} on a well-formed body"}


def kopf_frame(ex: BaseException) -> str | None:
    """module.function of the innermost frame if it lies in kopf's sources (then the exception is the code's, not the harness's)."""
    import traceback
    tb = traceback.extract_tb(ex.__traceback__)
    if not tb:
        return None
    last = tb[-1]
    fn = last.filename.replace("\\", "/")
    if "/kopf/" not in fn or "/harness/" in fn:
        return None
    return fn.split("/kopf/", 1)[1].rsplit(".", 1)[0].replace("/", ".") + "." + last.name


def apply_life_edit(body: dict, edit: dict) -> dict:
    nb = copy.deepcopy(body)
    for k in ("spec", "data"):
        if k in edit:
            nb[k] = copy.deepcopy(edit[k])
    if "labels" in edit:
        if edit["labels"]:
            nb["metadata"]["labels"] = copy.deepcopy(edit["labels"])
        else:
            nb["metadata"].pop("labels", None)
    if "annotations" in edit:
        anns = dict(nb["metadata"].get("annotations") or {})
        for k, v in edit["annotations"].items():
            if v is None:
                anns.pop(k, None)
            else:
                anns[k] = v
        if anns:
            nb["metadata"]["annotations"] = anns
        else:
            nb["metadata"].pop("annotations", None)
    if "status" in edit:
        st = nb.get("status") if isinstance(nb.get("status"), dict) else {}
        st = dict(st)
        for k, v in edit["status"].items():
            if v is None:
                st.pop(k, None)
            else:
                st[k] = v
        if st:
            nb["status"] = st
        else:
            nb.pop("status", None)
    return bump(nb)


def bump(body: dict) -> dict:
    nb = copy.deepcopy(body)
    nb["metadata"]["resourceVersion"] = str(int(nb["metadata"].get("resourceVersion", "0")) + 1)
    return nb


def apply_probe(K: dict, body: dict, probe: str, own_extras: list) -> tuple[dict, str]:
    """An event that carries NO essential change."""
    nb = bump(body)
    if probe == "sysmeta":
        m = nb["metadata"]
        m["generation"] = int(m.get("generation", 1)) + 1
        m["managedFields"] = list(m.get("managedFields", [])) + [{"manager": "kubectl", "operation": "Update", "fieldsV1": {"f:spec": {}}}]
        return nb, probe
    if probe == "foreign-status" and not any(overlaps(x, ["status", "foreign"]) for x in own_extras):
        st = dict(nb.get("status") if isinstance(nb.get("status"), dict) else {})
        st["foreign"] = {"n": int((st.get("foreign") or {}).get("n", 0)) + 1}
        nb["status"] = st
        return nb, probe
    if probe == "other-operator":
        B, P = K["bodies"].Body, K["patches"].Patch
        ods = K["diffbase"].AnnotationsDiffBaseStorage(prefix="other-op.example.org")
        ops = K["progress"].AnnotationsProgressStorage(prefix="other-op.example.org")
        patch = P()
        ods.store(body=B(nb), patch=patch, essence=ops.clear(essence=ods.build(body=B(nb))))
        ops.touch(body=B(nb), patch=patch, value="2020-01-01T00:00:00")
        ops.store(key="their_fn", record={"started": "2020-01-01T00:00:00", "retries": 1}, body=B(nb), patch=patch)
        return merge_patch(nb, json.loads(json.dumps(dict(patch)))), probe
    return nb, "same"


class _Life:
    """One registry / settings / memory: the operator's core for one object."""

    def __init__(self, K: dict, E: dict, case: dict) -> None:
        import logging
        kopf = E["kopf"]
        self.K, self.E, self.case = K, E, case
        self.registry = E["registries"].OperatorRegistry()
        self.settings = E["configuration"].OperatorSettings()
        self.settings.posting.enabled = False
        self.settings.persistence.diffbase_storage = build_diffbase(K, case["diffbase"])
        self.settings.persistence.progress_storage = build_progress(K, case["progress"])
        self.resource = E["references"].Resource("kopf.dev", "v1", "kopfexamples", namespaced=True)
        self.calls: list[dict] = []
        self.phase = "?"
        self.cycle_no = 0
        self.memory = E["inventory"].ResourceMemory()
        self.mate_memories: dict[str, Any] = {}
        self.logger = logging.getLogger("verif.c04.life")
        self.logger.setLevel(logging.CRITICAL)
        self.lifecycle = getattr(E["lifecycles"], case["lifecycle"])

        def mk(hid: str):
            async def fn(old, new, diff, **_: Any) -> None:
                self.calls.append({"id": hid, "phase": self.phase, "cycle": self.cycle_no, "old": copy.deepcopy(old),
                                   "new": copy.deepcopy(new), "diff": canon_items(diff)})
            fn.__name__ = hid
            return fn

        def mk_event(hid: str):
            async def fn(**_: Any) -> None:
                return None
            fn.__name__ = hid
            return fn
        for h in case["handlers"]:
            f = tuple(h["field"]) if isinstance(h["field"], list) else h["field"]
            res = ("kopf.dev", "v1", "kopfexamples") if h["res"] == "main" else OTHER_RESOURCE
            kw: dict[str, Any] = {"id": h["id"], "registry": self.registry}
            if f is not None:
                kw["field"] = f
            if h["deco"] == "event":
                kopf.on.event(*res, **kw)(mk_event(h["id"]))
            else:
                getattr(kopf.on, h["deco"])(*res, **kw)(mk(h["id"]))

    def restart(self) -> None:
        """The operator restarts: a new memory, the object is noticed by the initial listing (resuming applies)."""
        self.memory = self.E["inventory"].ResourceMemory()
        self.memory.noticed_by_listing = True

    async def meet(self, name: str, body: dict, other_resource: bool, limit: int) -> dict:
        """The same operator (registry, settings — ONE pair of storages) processes ANOTHER object: its own memory, the
        main resource or the other one."""
        keep = (self.memory, self.resource, self.phase)
        self.memory = self.mate_memories.setdefault(name, self.E["inventory"].ResourceMemory())
        if other_resource:
            self.resource = self.E["references"].Resource(*OTHER_RESOURCE, namespaced=True)
        try:
            return await self.settle(body, "mate", limit)
        finally:
            self.memory, self.resource, self.phase = keep

    async def event(self, body: dict) -> tuple[dict | None, BaseException | None]:
        """One real processing cycle for one event; returns the object as the API would hold it after the cycle's patch
        (merge-patch part with the oracle's own RFC 7386 merge; the transformation functions — the finalizer edits —
        applied to the result), or None when nothing would be sent."""
        B, P = self.K["bodies"].Body, self.K["patches"].Patch
        patch = P()
        self.cycle_no += 1
        try:
            await self.E["processing"].process_resource_causes(
                lifecycle=self.lifecycle, indexers=self.E["indexing"].OperatorIndexers(), registry=self.registry,
                settings=self.settings, resource=self.resource, raw_event={"type": "MODIFIED", "object": body}, body=B(body),
                patch=patch, memory=self.memory, local_logger=self.logger, event_logger=self.logger, stream_pressure=None,
                operator_paused=None, consistency_time=None)
        except Exception as ex:  # noqa: BLE001 — the code's own exceptions are a verdict; the harness's are re-raised by the caller
            return None, ex
        pj = json.loads(json.dumps(dict(patch)))
        nb = merge_patch(body, pj) if pj else copy.deepcopy(body)
        for fn in patch.fns:
            fn(nb)
        if leanio.canon(nb) == leanio.canon(body):
            return None, None
        return {"patch": pj, "fns": len(patch.fns), "body": nb}, None

    async def settle(self, body: dict, phase: str, limit: int) -> dict:
        """Events until nothing is sent any more (every patch comes back as the next event)."""
        self.phase = phase
        cycles = 0
        patches: list = []
        while True:
            sent, ex = await self.event(body)
            cycles += 1
            if ex is not None:
                return {"body": body, "cycles": cycles, "raised": ex, "patches": patches, "settled": False}
            if sent is None:
                return {"body": body, "cycles": cycles, "raised": None, "patches": patches, "settled": True}
            patches.append(sent["patch"] if sent["patch"] else {"metadata": {"finalizers": "(edited by a patch function)"}})
            body = bump(sent["body"])
            if cycles >= limit:
                return {"body": body, "cycles": cycles, "raised": None, "patches": patches, "settled": False}


def eval_life_cases(K: dict, cases: list[dict], out: Out) -> None:
    import asyncio
    E = _loop_env()

    async def main() -> None:
        for case in cases:
            try:
                await _eval_life(K, E, case, out)
            except Exception as ex:  # noqa: BLE001 — the code's own exception (outside a processing cycle) is a verdict too
                frame = kopf_frame(ex)
                if frame is None:
                    raise
                out.count("raised_in_kopf", f"life: {type(ex).__name__} in {frame}")
                out.fail("oracle", f"the real code raised {type(ex).__name__} in {frame} ({str(ex)[:120]}): the object cannot be processed",
                         {k: v for k, v in case.items()}, {"site": frame, "shape": f"raises {type(ex).__name__} on a generated life case"})
    asyncio.run(main())


async def _eval_life(K: dict, E: dict, case: dict, out: Out) -> None:
    replay = {k: case[k] for k in ("kind", "diffbase", "progress", "body", "edit", "edit_kind", "handlers", "lifecycle", "probes", "lseed",
                                   "restart", "edit2", "delete", "mates") if k in case}
    random.seed(case["lseed"])                         # lifecycles.shuffled/randomized use the global PRNG
    hs_main = [h for h in case["handlers"] if h["res"] == "main"]
    changing = [h for h in hs_main if h["deco"] != "event"]
    own_extras = [parse_field(h["field"]) for h in hs_main if h["field"]]
    dsf, psf = build_diffbase(K, case["diffbase"]), build_progress(K, case["progress"])      # fresh storages: the oracle's reference
    mcfg = model_cfg(K, dsf, psf)
    life = _Life(K, E, case)
    out.evals += 1
    out.count("life_diffbase", case["diffbase"]["cls"] + ("" if not case["diffbase"].get("kw") else " (configured)"))
    out.count("life_progress", case["progress"]["cls"] + ("" if not case["progress"].get("kw") else " (configured)"))
    out.count("life_lifecycle", case["lifecycle"])
    out.count("life_edit", case.get("edit_kind", "corpus"))
    for h in case["handlers"]:
        out.count("life_handler_kind", f"@on.{h['deco']}" + ("(field=…)" if h["field"] else "") + (" of another resource" if h["res"] != "main" else ""))
    out.count("life_changing_handlers", min(len(changing), 6))
    limit = 2 * len(changing) + 6

    def essence_of(body: dict) -> list:
        return real_essence(K, dsf, psf, body, own_extras)

    def fetched_of(body: dict) -> Any:
        old = dsf.fetch(body=K["bodies"].Body(body))
        return psf.clear(essence=old) if old is not None else None

    def raised(where: str, ex: BaseException, body: dict, rp: dict) -> None:
        frame = kopf_frame(ex)
        if frame is None:
            raise ex                                    # not the code's exception: a harness error, not a verdict
        sig = raise_signature(K, dsf, psf, body, own_extras, type(ex).__name__, frame)
        out.count("life_outcome", f"{where}: raised {type(ex).__name__}" + (" (F13)" if sig == SIG_F13 else ""))
        out.fail("oracle", f"{where}: the real processing cycle raised {type(ex).__name__} in {frame}: the object cannot be "
                           f"processed, none of its changes is handled ({str(ex)[:120]})", dict(rp, body_at=body), sig)

    def attended(e_old: Any, e_new: Any) -> bool:
        """Does any change-detecting handler's criterion (the presence of its field, now or in the last-handled state) match?"""
        for h in changing:
            f = parse_field(h["field"])
            if not f or resolve_abs(e_new, f) is not ABSENT or (e_old is not None and resolve_abs(e_old, f) is not ABSENT):
                return True
        return False

    def judge_calls(phase: str, e_old: Any, e_new: Any, rp: dict, kind: str = "event") -> bool:
        """Exactly the handlers whose cause this is and whose (field of the) essence changed were called, once, with exact
        kwargs. `kind`: "event" (creation if nothing is stored, else update / no-op), "restart" (the first event after the
        operator's start: resuming handlers are mixed in), "deletion" (the object is marked for deletion and held by us)."""
        calls = [c for c in life.calls if c["phase"] == phase]
        ok = True
        creation = e_old is None
        whole_differs = creation or not strict_eq(e_old, e_new)
        whole = canon_items(K["diffs"].diff(e_old, e_new))
        for h in changing:
            f = parse_field(h["field"])
            mine = [c for c in calls if c["id"] == h["id"]]
            nv = resolve_abs(e_new, f)
            there = not f or nv is not ABSENT or (not creation and resolve_abs(e_old, f) is not ABSENT)   # the field, now or before
            expected: bool | None
            if kind == "deletion":
                expected = h["deco"] == "delete" and there
            elif h["deco"] == "delete":
                expected = False
            elif h["deco"] == "resume":
                expected = kind == "restart" and not creation and there
            elif creation:
                expected = (h["deco"] == "create" and (not f or nv is not ABSENT)) or (h["deco"] == "field" and nv is not ABSENT)
                if f and nv is None:
                    expected = None                       # a null-valued field: present or not is the open finding F10's question
            elif h["deco"] == "create":
                expected = False
            else:
                expected = whole_differs and (not f or field_differs(e_old, e_new, f))
            out.count("life_expected", f"{phase}: {h['deco']}{'(field)' if f else ''} -> {'either' if expected is None else 'called' if expected else 'not called'}")
            if expected is not None and (len(mine) == 1) != expected or len(mine) > 1:
                ov = None if creation else resolve_abs(e_old, f)
                a, b = (None if ov is ABSENT else ov), (None if nv is ABSENT else nv)
                if creation or h["deco"] in ("delete", "resume") or kind == "deletion":
                    sig = SIG_SELECT
                elif len(mine) > 1 and only_boolint(e_old, e_new):
                    sig = SIG_F12                         # (fixed class) the update is never recorded as handled: every event repeats it
                elif len(mine) <= 1 and (equiv_strict(a, b) or (not mine and equiv_strict(e_old, e_new))):
                    sig = SIG_F10                         # null-valued vs. absent keys only (the whole cause is a NOOP then)
                elif len(mine) == 0 and f and equiv_py(a, b):
                    sig = SIG_F12                         # (fixed class) the field handler's selection by Python's `old != new`
                else:
                    sig = SIG_SELECT
                what = ("is called %d times" % len(mine)) if len(mine) > 1 else \
                    "is NOT called although its %s changed" % ("field " + ".".join(f) if f else "object") if expected else \
                    "is called although %s" % ("this is no creation" if h["deco"] == "create" and not creation else
                                               "this is no deletion" if h["deco"] == "delete" else
                                               "the object is being deleted" if kind == "deletion" else
                                               "nothing is to be resumed" if h["deco"] == "resume" else
                                               "its %s did not change" % ("field " + ".".join(f) if f else "object"))
                out.fail("oracle", f"{phase}: handler {h['id']} (@on.{h['deco']}, field={h['field']!r}) {what}",
                         dict(rp, handler=h, calls=[c["id"] for c in calls], essence_old=e_old, essence_new=e_new), sig)
                ok = False
            for c in mine[:1]:
                exp_old = None if creation else (py_resolve(e_old, f) if f else e_old)
                exp_new = py_resolve(e_new, f) if f else e_new
                crp = dict(rp, handler=h, call=c, essence_old=e_old, essence_new=e_new)
                bad, sigk = None, SIG_KW
                if not strict_eq(c["old"], exp_old) or not strict_eq(c["new"], exp_new):
                    bad = "old/new are not the (field of the) last-handled / current essence"
                elif not strict_eq(py_apply(c["diff"], c["old"]), c["new"]):
                    bad = "diff does not lead from old to new"
                    sigk = _sig_for(py_apply(c["diff"], c["old"]), c["new"], SIG_KW["shape"], SIG_KW["site"])
                elif (not c["diff"]) != strict_eq(c["old"], c["new"]):
                    bad = "diff empty iff unchanged"
                    sigk = _sig_for(c["old"], c["new"], SIG_KW["shape"], SIG_KW["site"])
                if bad:
                    out.fail("oracle", f"{phase}: handler {h['id']} (@on.{h['deco']}, field={h['field']!r}, lifecycle "
                                       f"{case['lifecycle']}) received wrong kwargs: {bad}", crp, sigk)
                    ok = False
                out.ask("kwargs diff of a handler vs. reduce of the whole diff (life)", ["C04.reduce", whole, f], c["diff"], crp)
        return ok

    def judge_rest(phase: str, st: dict, e_ref: Any, rp: dict, e_prev: Any = None) -> bool:
        """What the finished cycle left behind: it came to rest, own writes are invisible, the stored state is the essence.
        (No exemption for the open finding F8 here: the generated handler fields never cover `metadata…`, and every storage
        cleans its own status field / annotation keys AFTER the handlers' fields are restored.)"""
        body = st["body"]
        res = essence_of(body)
        written = [p for pj in st["patches"] for p in leaf_paths(pj)]
        if res[0] != "ok" or not strict_eq(res[1], e_ref):
            changed = changed_paths(e_ref, res[1]) if res[0] == "ok" else []
            sig = SIG_OWNLOC if at_own_location(changed, [p for p in written if p]) else SIG_OWNVIS
            out.fail("oracle", f"{phase}: the framework's own writes of the cycle changed the essence of the object "
                               f"(changed at {['.'.join(c) for c in changed[:4]]})",
                     dict(rp, patches=st["patches"][-4:], essence_before=e_ref, essence_after=res, body_at=body), sig)
            return False
        if not st["settled"]:
            out.fail("oracle", f"{phase}: the handling does not come to rest: after {st['cycles']} cycles every patch still brings a "
                               f"new patch (handling triggers itself)", dict(rp, patches=st["patches"][-3:], body_at=body),
                     SIG_F12 if e_prev is not None and only_boolint(e_prev, e_ref) else SIG_SETTLE)
            return False
        try:
            fetched = fetched_of(body)
        except (ValueError, AttributeError):
            fetched = "unreadable"
        if not strict_eq(fetched, e_ref):
            a = fetched if fetched is not None else {}
            sig = SIG_F10 if equiv_strict(a, e_ref) else SIG_F12 if fetched is not None and equiv_py(a, e_ref) else SIG_SETTLE
            out.fail("oracle", f"{phase}: the handling is finished but the stored last-handled state is not the essence of the object: "
                               f"the next event is a change again (handlers repeat / see a stale old)",
                     dict(rp, patches=st["patches"][-4:], stored=fetched, essence=e_ref, body_at=body), sig)
            return False
        out.ask("diffbase.build + progress.clear (after the real cycles of a life)", ["C04.essence", mcfg, own_extras, body], res,
                dict(rp, body_at=body))
        return True

    async def quiet(phase: str, body: dict, probe: str, e_ref: Any, rp: dict) -> dict | None:
        """An event without an essential change: nobody is called, nothing is sent, the essence is the same."""
        pb, probe = apply_probe(K, body, probe, own_extras)
        out.count("life_probe", probe)
        res = essence_of(pb)
        if res[0] != "ok" or not strict_eq(res[1], e_ref):
            if probe == "other-operator" and res[0] == "ok":
                out.fail("oracle", f"{phase}: another Kopf-based operator's write changes the essence", dict(rp, probe=probe, body_at=pb,
                         essence_before=e_ref, essence_after=res), {"site": "DiffBaseStorage.build", "shape": "another Kopf operator's write is visible"})
            return None                                   # (system metadata / foreign status: the pure-level oracle's subject)
        before = len(life.calls)
        st = await life.settle(pb, phase, 3)
        qrp = dict(rp, probe=probe, body_at=pb)
        if st["raised"] is not None:
            raised(phase, st["raised"], pb, qrp)
            return None
        called = [c["id"] for c in life.calls[before:]]
        if called or st["patches"]:
            out.fail("oracle", f"{phase}: an event without an essential change ({probe}) "
                               + (f"calls {called}" if called else "sends a patch") + ": handling is triggered by a non-essential change",
                     dict(qrp, called=called, patches=st["patches"], essence=e_ref), SIG_QUIET)
            return None
        return st["body"]

    own_pfx = own_annotation_prefixes(K, dsf, psf)
    mate_bodies: dict[str, dict] = {}

    async def meet(when: str, rp: dict) -> bool:
        """The operator processes its other objects (the mates) at this point of the main object's life."""
        for m in case.get("mates", []):
            if m["when"] not in (when, "both"):
                continue
            mb = mate_bodies.get(m["name"]) or mate_body(K, m)
            st = await life.meet(m["name"], mb, m.get("res") == "other", limit)
            if st["raised"] is not None:
                raised(f"mate ({when})", st["raised"], mb, rp)
                return False
            mate_bodies[m["name"]] = bump(st["body"])
            out.count("life_mate", f"a mate carrying another Kopf operator's marker is processed {when} ({m.get('res', 'main')} resource)")
        return True

    def judge_ordinary(phase: str, b_old: dict | None, b_new: dict, rp: dict) -> bool:
        """From the property text alone (no reference essence): the ordinary annotations of the object — judged by ITS OWN
        annotations — are part of the old/new a whole-object handler gets, with their exact values; a change of one calls
        the whole-object update handlers once. (The handlers' and storages' fields never cover metadata.annotations here.)"""
        o_new = ordinary_view(b_new, own_pfx)
        o_old = ordinary_view(b_old, own_pfx) if b_old is not None else None
        calls = [c for c in life.calls if c["phase"] == phase]
        ok = True
        for h in changing:
            if h["field"] or h["deco"] != ("create" if b_old is None else "update"):
                continue
            mine = [c for c in calls if c["id"] == h["id"]]
            if o_old is not None and o_old != o_new and len(mine) != 1:
                out.fail("oracle", f"{phase}: an ordinary annotation of the object changed ({sorted(set(o_old.items()) ^ set(o_new.items()))[:3]}) but the "
                                   f"whole-object update handler {h['id']} is called {len(mine)} times", dict(rp, handler=h, ordinary_old=o_old, ordinary_new=o_new),
                         SIG_SERVED_DIFF)
                ok = False
            for c in mine[:1]:
                got_new, got_old = annotations_of(c["new"]), annotations_of(c["old"])
                bad_new = {k: v for k, v in o_new.items() if k not in got_new or not strict_eq(got_new[k], v)}
                bad_old = {k: v for k, v in (o_old or {}).items() if k not in got_old or not strict_eq(got_old[k], v)}
                if bad_new or bad_old:
                    out.fail("oracle", f"{phase}: handler {h['id']} got an inexact " + ("new" if bad_new else "old") + f": the ordinary annotation(s) "
                                       f"{sorted(bad_new or bad_old)} of the object are missing / have another value", dict(rp, handler=h, call=c), SIG_SERVED_ORD)
                    ok = False
        return ok

    body0 = copy.deepcopy(case["body"])
    rp = dict(replay)
    if not wellformed_meta(body0):
        out.count("life_outcome", "malformed metadata (not judged)")
        return
    e0 = essence_of(body0)
    try:
        stored0 = fetched_of(body0)
    except tuple(ERRS) + (AttributeError,):
        stored0 = "unreadable"
    if any(through_non_mapping(body0, loc) for loc in own_status_locations(K, dsf, psf)):
        # a storage's own location lies below a foreign non-mapping value (e.g. status.kopf is a string): the first own write replaces it — a change
        # made by the framework that a watcher of `status` sees once (see ASSUMPTIONS). Judged: the object IS processed (no
        # exception: the class of the former finding F13) and the handling comes to rest.
        st = await life.settle(body0, "creation", limit)
        if st["raised"] is not None:
            raised("creation", st["raised"], body0, rp)
        elif not st["settled"]:
            out.fail("oracle", f"creation (an own storage location lies below a foreign scalar): the handling does not come to rest after "
                               f"{st['cycles']} cycles", dict(rp, patches=st["patches"][-3:], body_at=st["body"]), SIG_SETTLE)
        else:
            if e0[0] == "ok":
                out.ask("diffbase.build + progress.clear (an own storage location lies below a foreign scalar)",
                        ["C04.essence", mcfg, own_extras, body0], e0, dict(rp, body_at=body0))
            if life.calls:
                out.keys.add(digest(["life-corrupt", case["diffbase"], case["progress"], case["handlers"], case["body"]]))
        out.count("life_outcome", "an own storage location lies below a foreign scalar (processed, comes to rest; not judged further)")
        return
    # ---- phase A: the object is seen for the first time (the operator may have processed other objects before) -------------
    if not await meet("before", rp):
        return
    st = await life.settle(body0, "creation", limit)
    if st["raised"] is not None:
        raised("creation", st["raised"], body0, rp)
        return
    if e0[0] != "ok":
        out.fail("oracle", "the reference essence cannot be built although the real cycle went through", dict(rp, essence=e0),
                 {"site": "DiffBaseStorage.build", "shape": "build raises outside the processing cycle only"})
        return
    if stored0 is not None:
        out.count("life_outcome", "the body carries a stored state from the start (not judged)")
        return
    ok = judge_calls("creation", None, e0[1], rp)
    ok = judge_ordinary("creation", None, body0, rp) and ok
    if not attended(None, e0[1]):
        # no handler's criteria (here: the presence of its field) match the object: the operator is blind to it and stores nothing
        out.count("life_outcome", "the object matches no handler (blind: nothing stored)")
        if st["patches"]:
            out.fail("oracle", "creation: the object matches no handler's criteria but the operator writes to it",
                     dict(rp, patches=st["patches"]), {"site": "processing.process_resource_causes", "shape": "an unmatched object is written to"})
        return
    ok = judge_rest("creation", st, e0[1], rp) and ok
    if not ok:
        out.count("life_outcome", "failed in creation")
        return
    body = await quiet("quiet after creation", st["body"], case["probes"][0], e0[1], rp)
    if body is None:
        out.count("life_outcome", "ended at the first quiet probe")
        return
    # ---- phase C: somebody edits the object ------------------------------------------------------------------
    if not await meet("between", rp):
        return
    body1 = apply_life_edit(body, case["edit"])
    e1 = essence_of(body1)
    st = await life.settle(body1, "update", limit)
    if st["raised"] is not None:
        raised("update", st["raised"], body1, rp)
        return
    if e1[0] != "ok":
        out.fail("oracle", "the reference essence cannot be built although the real cycle went through", dict(rp, essence=e1, body_at=body1),
                 {"site": "DiffBaseStorage.build", "shape": "build raises outside the processing cycle only"})
        return
    out.count("life_update", "essence unchanged" if strict_eq(e0[1], e1[1]) else
              "bool<->number only" if equiv_py(e0[1], e1[1]) and not equiv_strict(e0[1], e1[1]) else
              "null<->absent only" if equiv_strict(e0[1], e1[1]) else "changed")
    ok = judge_calls("update", e0[1], e1[1], rp)
    ok = judge_ordinary("update", body, body1, rp) and ok
    if not attended(e0[1], e1[1]):
        out.count("life_outcome", "the edited object matches no handler (blind)")
        return
    ok = judge_rest("update", st, e1[1], rp, e0[1]) and ok
    try:
        now_stored = fetched_of(st["body"])
    except (ValueError, AttributeError):
        now_stored = "unreadable"
    if LIFE_MODEL_TIE:
        called_upd = {c["id"] for c in life.calls if c["phase"] == "update"}
        whole_upd = [h for h in changing if h["deco"] == "update" and not h["field"]]
        if whole_upd:
            out.ask("cause of the event (life): model `detect` vs. the whole-object update handlers being called",
                    ["C04.detect", e0[1], e1[1]], "update" if all(h["id"] in called_upd for h in whole_upd) else
                    "noop" if not any(h["id"] in called_upd for h in whole_upd) else "mixed", rp)
        for h in changing:
            if h["deco"] in ("update", "field") and h["field"]:
                out.ask("selection of a field handler (life): model `selected` vs. the handler being called",
                        ["C04.selected", e0[1], e1[1], parse_field(h["field"])], h["id"] in called_upd, dict(rp, handler=h))
        if now_stored != "unreadable":
            out.ask("the last-handled state after the cycle (life): model `afterCycle` vs. what the real cycles stored",
                    ["C04.after", e0[1], e1[1]], now_stored, rp)
    if not ok:
        out.count("life_outcome", "failed in update")
        return
    body = await quiet("quiet after update", st["body"], case["probes"][1], e1[1], rp)
    if body is None:
        out.count("life_outcome", "ended at the second quiet probe")
        return
    e_last = e1[1]
    # ---- phase E: the operator restarts; the object is as it was, or was edited while the operator was down ---------
    if case.get("restart"):
        life.restart()
        body2 = apply_life_edit(body, case["edit2"]) if case["restart"] == "edited" else bump(body)
        e2 = essence_of(body2)
        st = await life.settle(body2, "restart", limit)
        if st["raised"] is not None:
            raised("restart", st["raised"], body2, rp)
            return
        if e2[0] != "ok":
            return
        out.count("life_restart", "the object was edited while the operator was down" if not strict_eq(e2[1], e_last) else "the object is unchanged")
        ok = judge_calls("restart", e_last, e2[1], rp, "restart")
        ok = (judge_rest("restart", st, e2[1], rp, e_last) if attended(e_last, e2[1]) else True) and ok
        if not ok:
            out.count("life_outcome", "failed at the restart")
            return
        body = await quiet("quiet after the restart", st["body"], "same", e2[1], rp)
        if body is None:
            out.count("life_outcome", "ended at the quiet probe after the restart")
            return
        e_last = e2[1]
    # ---- phase D: the object is deleted (held by the operator's finalizer if a deletion handler matches it) ------------
    if case.get("delete"):
        bodyd = bump(body)
        bodyd["metadata"]["deletionTimestamp"] = "2020-02-02T00:00:00Z"
        held = FINALIZER in (bodyd["metadata"].get("finalizers") or [])
        out.count("life_deletion", "held by the operator's finalizer" if held else "not held (no deletion handler matches)")
        st = await life.settle(bodyd, "deletion", limit)
        if st["raised"] is not None:
            raised("deletion", st["raised"], bodyd, rp)
            return
        if held:
            ok = judge_calls("deletion", e_last, e_last, rp, "deletion")
            if ok and (not st["settled"] or FINALIZER in (st["body"]["metadata"].get("finalizers") or [])):
                out.fail("oracle", "deletion: the deletion handlers are done but the object is not released / the handling does not come to rest",
                         dict(rp, patches=st["patches"][-3:], body_at=st["body"]),
                         {"site": "processing.process_resource_causes", "shape": "the object is not released after its deletion handlers"})
                ok = False
        else:
            called = [c["id"] for c in life.calls if c["phase"] == "deletion"]
            ok = not called
            if called:
                out.fail("oracle", f"deletion: handlers {called} are called for an object the operator does not hold", dict(rp, called=called), SIG_SELECT)
        if not ok:
            out.count("life_outcome", "failed at the deletion")
            return
    out.count("life_outcome", "complete")
    if life.calls:
        out.keys.add(digest(["life", case["diffbase"], case["progress"], case["handlers"], case["lifecycle"], case["body"], case["edit"]]))
    if len(out.samples) < 6 and life.calls and len(leanio.canon(replay)) < 2500 and not any(s.get("kind") == "life" for s in out.samples):
        out.samples.append(dict(replay, calls=[{k: c[k] for k in ("id", "phase", "cycle")} for c in life.calls]))


# ------------------------------------------------------------------------------------------------
# shards, run, search, replay

def guarded(out: Out, kind: str, case: dict, fn: Any) -> None:
    """Run one evaluation; an exception raised INSIDE kopf's sources is the code's verdict on that input (an oracle failure
    with the input as replay), never a crash of the check; anything else is a harness error and is re-raised."""
    try:
        fn()
    except Exception as ex:  # noqa: BLE001
        frame = kopf_frame(ex)
        if frame is None:
            raise
        out.count("raised_in_kopf", f"{kind}: {type(ex).__name__} in {frame}")
        out.fail("oracle", f"the real code raised {type(ex).__name__} in {frame} ({str(ex)[:120]}): the object cannot be processed",
                 dict(case, kind=kind), {"site": frame, "shape": f"raises {type(ex).__name__} on a generated {kind} case"})


def run_shard(args: tuple) -> Out:
    seed, n_pairs, n_ess, oracle_only = args
    K = _kopf()
    rng = random.Random(seed)
    out = Out()
    for _ in range(n_pairs):
        case, tags = gen_diff_case(rng)
        guarded(out, "diff", case, lambda: eval_diff_case(K, case, out, tags))
    for _ in range(n_ess):
        ecase = gen_ess_case(rng)
        guarded(out, "essence", ecase, lambda: eval_ess_case(K, ecase, out))
    for _ in range(max(4, int(n_ess * MULTI_RATIO))):
        ecase = gen_multi_case(rng)
        guarded(out, "essence", ecase, lambda: eval_ess_case(K, ecase, out))
    for _ in range(max(1, n_pairs // 25)):
        scase = gen_seq_case(rng)
        guarded(out, "sequence", scase, lambda: eval_seq_case(K, scase, out))
    for _ in range(max(4, n_pairs // SERVED_PER_PAIRS)):
        vcase = gen_served_case(rng)
        guarded(out, "served", vcase, lambda: eval_served_case(K, vcase, out))
    eval_loop_cases(K, [gen_loop_case(rng) for _ in range(max(2, n_pairs // 12))], out)
    eval_life_cases(K, [gen_life_case(rng) for _ in range(max(4, n_pairs // LIFE_PER_PAIRS))], out)
    if not oracle_only:
        settle(out)
    out.requests, out.expect = [], []
    return out


def settle(out: Out) -> None:
    """Send the collected requests through the Lean driver and compare (the tie)."""
    if not out.requests:
        return
    answers = None
    for attempt in (0, 1):
        try:
            answers = leanio.Driver(["C04"]).ask(out.requests)
            break
        except leanio.LeanError as e:
            # the driver did not run at all (e.g. a concurrently edited Drv/All.lean whose new import is not
            # built yet): rebuild once, then give up as a harness error — never a verdict about the property.
            if attempt == 0:
                leanio.lake_build(["Kopf.Drv.All"])
                continue
            raise RuntimeError(f"Lean driver unavailable: {e}: {e.log[-500:]}")
    for (what, impl, replay), ans in zip(out.expect, answers):
        out.cmp += 1
        if ans and ans[0] == "ok" and what.startswith(("diffs.", )):
            model: Any = canon_items(ans[1])
        elif ans and ans[0] == "ok" and isinstance(impl, list) and impl and impl[0] in ("ok", "err"):
            model = ["ok", ans[1]]
        elif ans and ans[0] == "ok":
            model = ans[1]
        else:
            model = ans
        if model == ["err", "unmodelled"]:
            out.count("model", "unmodelled (outside the described domain)")
            continue
        if leanio.canon(impl) != leanio.canon(model):
            out.fail("tie", f"{what}: implementation and model differ", {"input": replay, "impl": impl, "model": model})


def absorb(ctx: Ctx, out: Out) -> None:
    ctx.evaluations += out.evals
    ctx.nontrivial |= out.keys
    for s in out.samples:
        if len(ctx.samples) < 6:
            ctx.samples.append(s)
    for g, d in out.hist.items():
        for t, n in d.items():
            ctx.count(g, t, n)
    ctx.tie_comparisons += out.cmp
    ctx.traces += out.cmp
    for kind, what, replay, sig in out.fails:
        if kind == "oracle":
            ctx.oracle_fail(what, replay, sig)
        elif sum(1 for f in ctx.failures if f.kind == "tie") < 50:
            ctx.tie_fail(what, replay)


def check_constants(ctx: Ctx) -> None:
    """(T, light) the marker/prefix constants and the kubectl annotation are read from the source AST."""
    src = (ctx.repo / "kopf/_cogs/configs/conventions.py").read_text()
    consts: dict[str, list[str]] = {}
    for node in ast.walk(ast.parse(src)):
        if isinstance(node, ast.Assign) and len(node.targets) == 1 and isinstance(node.targets[0], ast.Name) \
                and node.targets[0].id in ("__KNOWN_MARKERS", "__KNOWN_PREFIXES"):
            try:
                consts[node.targets[0].id] = sorted(ast.literal_eval(node.value.args[0]))  # frozenset([...])
            except Exception as e:  # noqa: BLE001
                ctx.tie_fail(f"cannot read {node.targets[0].id} from conventions.py: {e}", {"source": ast.unparse(node)})
                return
    try:
        ans = ctx.driver.ask([["C04.consts"]])[0]
    except leanio.LeanError as e:
        ctx.tie_fail(f"Lean driver failed: {e}", {"log": e.log[-2000:]})
        return
    model = ans[1] if ans and ans[0] == "ok" else {}
    impl = {"markers": consts.get("__KNOWN_MARKERS"), "prefixes": consts.get("__KNOWN_PREFIXES"),
            "last_applied": "kubectl.kubernetes.io/last-applied-configuration"
            if "'kubectl.kubernetes.io/last-applied-configuration'" in (ctx.repo / "kopf/_cogs/configs/diffbase.py").read_text() else None}
    ctx.compare("marker/prefix constants (conventions.py, diffbase.py)", impl,
                {"markers": sorted(model.get("markers", [])), "prefixes": sorted(model.get("prefixes", [])),
                 "last_applied": model.get("last_applied")}, {"constants": impl})


def eval_case(K: dict, case: dict, out: Out) -> None:
    if case.get("kind") == "diff":
        dcase = {"a": case["a"], "b": case["b"], "path": case.get("path", [])}
        guarded(out, "diff", dcase, lambda: eval_diff_case(K, dcase, out, ["corpus"]))
    elif case.get("kind") == "essence":
        ecase = {"diffbase": case["diffbase"], "progress": case["progress"], "extra": case.get("extra", []),
                 "body": case["body"], "wseed": case.get("wseed", 0), "writes": case.get("writes")}
        guarded(out, "essence", ecase, lambda: eval_ess_case(K, ecase, out))
    elif case.get("kind") == "sequence":
        guarded(out, "sequence", case, lambda: eval_seq_case(K, case, out))
    elif case.get("kind") == "served":
        guarded(out, "served", case, lambda: eval_served_case(K, case, out))
    elif case.get("kind") == "cycle":
        eval_loop_cases(K, [case], out)
    elif case.get("kind") == "life":
        eval_life_cases(K, [case], out)
    else:
        raise ValueError(f"unknown case kind {case.get('kind')!r}")


def shards_for(ctx: Ctx, pairs: int) -> list[tuple]:
    n = max(1, (pairs + SHARD - 1) // SHARD)
    per = pairs // n
    return [(f"C04-{ctx.seed}-{i}-{ctx.rng.getrandbits(32)}", per, int(per * ESS_RATIO), False) for i in range(n)]


def run_pool(jobs: list[tuple]) -> list[Out]:
    workers = min(len(jobs), int(os.environ.get("VERIF_WORKERS", "0")) or min(16, os.cpu_count() or 2))
    if workers <= 1:
        return [run_shard(j) for j in jobs]
    with multiprocessing.get_context("fork").Pool(workers) as pool:
        return pool.map(run_shard, jobs, chunksize=1)


def run(ctx: Ctx) -> None:
    K = _kopf()
    check_constants(ctx)
    # corpus first (hand-written dangerous cases, witnesses of known findings)
    from ..core import load_corpus
    out = Out()
    for name, case in load_corpus(ID):
        for c in (case if isinstance(case, list) else [case]):
            eval_case(K, c.get("replay", c), out)
            out.count("corpus", name)
    settle(out)
    absorb(ctx, out)
    pairs = ctx.budget(QUICK_PAIRS, THOROUGH_PAIRS)
    for o in run_pool(shards_for(ctx, pairs)):
        absorb(ctx, o)
    ctx.exhaustive = False


def search(ctx: Ctx, broken: list) -> None:
    """A proof or the correspondence is broken and the oracle saw nothing: 10x budget, oracle only,
    plus the inputs on which model and implementation disagreed (their oracle verdict is what counts)."""
    K = _kopf()
    out = Out()
    for b in broken:
        inp = b.replay.get("input") if isinstance(b.replay, dict) else None
        if isinstance(inp, dict) and inp.get("kind") in CASE_KINDS:
            try:
                eval_case(K, inp, out)
            except Exception:  # noqa: BLE001
                pass
    absorb_oracle_only(ctx, out)
    pairs = ctx.budget(QUICK_PAIRS, THOROUGH_PAIRS) * (10 if ctx.tier == "quick" else 2)
    n = max(1, pairs // SHARD)
    jobs = [(f"C04-search-{ctx.seed}-{i}", SHARD, int(SHARD * ESS_RATIO), True) for i in range(n)]
    for o in run_pool(jobs):
        absorb_oracle_only(ctx, o)


def absorb_oracle_only(ctx: Ctx, out: Out) -> None:
    for kind, what, replay, sig in out.fails:
        if kind == "oracle":
            ctx.oracle_fail(what, replay, sig)


def replay(ctx: Ctx, data: dict) -> None:
    K = _kopf()
    case = data.get("replay", data)
    if data.get("kind") == "broken-obligation":
        case = (data.get("first") or {}).get("input") or {}
        print("broken obligation(s):", sorted(set(data.get("what", []))))
    if isinstance(case, dict) and "input" in case and "kind" not in case:
        case = case["input"]
    if not isinstance(case, dict) or case.get("kind") not in CASE_KINDS:
        print("this replay file names a broken proof/tie obligation without a concrete input; re-run ./check C04 quick")
        ctx.tie_fail("broken obligation without input", data)
        return
    out = Out()
    eval_case(K, case, out)
    settle(out)
    absorb(ctx, out)
    for f in ctx.failures:
        print(f"{f.kind}: {f.what}")


WITNESS_NAMES = {"kopf_dev_touch_invisible", "marker_first_write_witness", "adoption_loses_last_handled_witness",
                 "touch_field_cleaned", "extra_annotations_witness", "status_handler_touch_invisible", "multi_drs_own_key_invisible",
                 "multi_transitional_store_invisible", "multi_marker_restored_witness", "hidden_field_raised_witness",
                 "hidden_status_field_raised_witness", "remembered_prefixes_witness"}
CYCLE_NAMES = {"noop_is_stable", "creation_settles", "settled_after_store", "update_is_stored", "update_settles", "store_only_on_difference",
               "stale_last_handled_witness", "field_handler_selected", "field_handler_called", "unchanged_field_not_selected",
               "field_handler_not_selected_witness"}
THEOREMS = [("Kopf.Props.C04_Witnesses" if n in WITNESS_NAMES else "Kopf.Props.C04_Cycle" if n in CYCLE_NAMES else "Kopf.Props.C04",
             f"Kopf.C04.{n}") for n in THEOREM_NAMES]
