"""C06 — the finalizer is never released early, always released eventually; foreign finalizers untouched.

Theorems: lean/Kopf/Props/C06.lean over lean/Kopf/Model/C06_Finalizer.lean (finalizers.py on lists, the
decision block of `process_resource_causes`, an LTS of one object + one operator with foreign writes
between any two requests of a cycle).
Ties: (T) the conditions of the decision block are re-extracted from the AST on every run and proved
equal to the model's (Kopf/Tie/C06.lean); (D) the real `finalizers.block_deletion/allow_deletion` and
`Patch.as_json_patch` over fn sequences on generated finalizer lists vs. the model; (S) every cycle of
closed-loop simulations of the real operator: the queued fns and the JSON-patch outcome (sent? applied?
carried?) vs. the model fed with the abstracted inputs of that cycle.
The oracle (independent of Lean) reads the server-side history, the request log and the handler log.
"""
from __future__ import annotations

import ast
import copy
import functools
import json
from typing import Any

from .. import leanio, pyextract, rfc
from ..core import Ctx, ExtractError, load_corpus
from . import sim_c06 as pool
from . import threads_c06 as threads

ID = "C06"
LEVEL = "proof"
STRENGTH = "partial"   # never_early only under `Guard` (open F5b); liveness under `LGuard` (no 422 injected without a write) as no-lost-wake-up + reachability, and for cycles that run to their end (open F10)
ENGINES = ["lean-model", "pyextract", "purediff", "kopfsim", "real-threads"]
TIE = ("T (conditions and effects of the finalizer block of process_resource_causes incl. what the early exit of the consistency gate "
       "returns as delays + the carry filter of process_resource_event and the cycle's patch starting with what was carried: "
       "AST → Lean, re-proved equal to the model, and `decision` = their composition) + D (real finalizers.block_deletion/"
       "allow_deletion and Patch.as_json_patch on generated lists and bodies, marked or not; real ChangingRegistry/SpawningRegistry."
       "requires_finalizer on registries built with kopf's decorators vs. the loop model `requiresLoop`) + S (every cycle of whole-operator simulations: queued fns, delays "
       "flag, JSON-patch outcome, carried fns, sleep-then-touch) + A (trace acceptance: one label per real step of the object's life — "
       "foreign write / mark / finalizer edit / cycle start on ITS event body / merge response / JSON-patch outcome / touch / restart — "
       "replayed through `lstep`: every label enabled, abstract state equal after each) + R (REAL threads on a real loop, harness/props/threads_c06.py: "
       "the real invocation.invoke of a gated sync function under label lists cancel/wake/return/raise vs. the LTS `istep` — task done / "
       "function returned after each label and how the task ended; the real process_resource_event with a sync @kopf.daemon/@kopf.timer "
       "against the in-memory API server: every stop_daemons call vs. `stopDelay`) + L (the slots model `sstep` of C06_Slots, differential on the "
       "SAME whole-operator simulations: per (operator memory of an object, handler id) one label per real step — spawn_daemons visiting a "
       "matching handler / a stopper being set on an invocation (DAEMON_ABANDONED = `abandon`, else `tell`) / the end of `_runner` — and "
       "after EVERY label the real state vs. the model's: which invocation memory.running_daemons[id] holds, which invocations are alive, "
       "which of them are told to stop / abandoned; after every stop_daemons call given one daemon: delay reported or none vs. `noDelay`; "
       "a label the model has disabled is a tie failure)")
LEVEL_TEXT = ("Lean theorems for ALL finalizer lists / fn sequences / decision inputs / label lists of the LTS (deletion requests, label "
              "edits, foreign finalizer edits and other writes, cycles on stale event bodies, handler & daemon completions, "
              "re-scheduling of purged deletion handlers, genuine or injected 422, restarts, foreign writes between any two requests "
              "of a cycle). FULL theorems: foreign_untouched, order_preserved, block/allow specs and idempotence, allow_after_block, "
              "patch_is_fn_of_tested, foreign_untouched_lts, decision_spec, decision_delays_spec (a cycle that leaves as inconsistent "
              "returns the rest of the waiting time — /repo 30557a0 — or, after a carried patch, a zero delay — the rework 02af7ce of 608a57d), "
              "conflict_carries_nothing, cycle_decides_anew, add_on_match, "
              "remove_on_mismatch, add_remove_on_match, released_in_one_quiet_cycle, wakeup_layer_refines; who requires the finalizer "
              "(requires_finalizer of both registries as a loop over registrations): requires_iff (some non-excluded registration requires "
              "and matches), requires_order_irrelevant, requires_every_registration (stacked ids), with the regression "
              "dedup_before_match_loses_requirement_witness. GUARDED (hence STRENGTH = "
              "partial): (1) never_early is FALSE of the code in one shape (open F5b): never_early_partial / never_early_inv_partial "
              "hold under exactly the gap (when the cycle's own merge patch is sent with a removal queued, nothing requires the "
              "finalizer again; harmless writes and any number of 422 are allowed), with never_early_fails + "
              "stale_release_via_merge_witness; (2) liveness: no_lost_wakeup (an operator step is always enabled for a waiting "
              "object) under LGuard = no 422 injected without a write (injected_422_loses_wakeup) — since /repo 30557a0 and the rework "
              "of 608a57d WITHOUT the former exclusion of handler-supplied no-op fns (F9 fixed: carried_fn_keeps_wakeup, with the old layer "
              "`lstepOld` kept for the regression theorem carried_fn_lost_wakeup_before_repair) and without assuming that an awaited "
              "version always arrives (inconsistent_noop_patch_keeps_wakeup = C03-N6/C07-F2 on a deletion; the former F8 history is "
              "noop_fn_keeps_wakeup); 'once all are finished it is removed' as an INEVITABILITY has no "
              "theorem: release_reachable_when_quiet is reachability by the operator's steps alone with the environment's part of the "
              "cycle labels chosen quiet (consistent, no other delay, no re-scheduling) and all queued events already marked. "
              "A cycle that dies in its patching (API error past the request retries, swallowed by throttled()) has no label in the "
              "LTS: the lost wake-up after it is open finding F10, seen by the liveness oracle only. "
              "'Abandoned after its timeouts' is an environment label in the object's LTS (C09 owns stop_daemons' stages). The LTS is "
              "trace-validated (tie A). SYNC daemons/handlers (real threads; the simulator runs them inline): FULL theorems over an LTS of "
              "invoke's sync branch for every list of cancel/return/raise/wake labels — sync_task_done_implies_returned (the task is not "
              "done before the function has returned, however often it is cancelled), sync_cancellation_not_lost, "
              "sync_task_finishes_after_return, stop_no_delay_spec (stop_daemons reports no delay iff the task is done or backoff+timeout "
              "are over) and their composition release_waits_for_sync_daemon; the variant that leaves the thread behind: "
              "detached_thread_witness, detached_release_witness (seed C06f). Tied by real-thread runs (tie R). The record of invocations per handler id "
              "(C06_Slots: spawn only when nothing is recorded under the id, stop stages on the recorded invocation, deletion BY ID when an invocation ends): "
              "FULL theorems for every label list — never_two_invocations, live_invocation_is_recorded, no_delay_only_when_all_exited_or_abandoned — with the "
              "variant that starts a new invocation over an abandoned one: respawn_over_abandoned_witness, respawn_two_alive_witness (seed C06h); tied "
              "differentially on the whole-operator runs (tie L).")
THEOREMS = [("Kopf.Props.C06", "Kopf.C06." + n) for n in [
    "foreign_untouched", "order_preserved", "block_spec", "allow_spec", "block_idempotent", "allow_idempotent",
    "allow_after_block", "patch_is_fn_of_tested", "foreign_untouched_lts", "decision_spec",
    "never_early_partial", "never_early_inv_partial", "conflict_carries_nothing", "cycle_decides_anew",
    "stale_release_via_merge_witness", "never_early_fails",
    "decision_delays_spec",
    "released_in_one_quiet_cycle", "wakeup_layer_refines", "no_lost_wakeup", "release_reachable_when_quiet", "injected_422_loses_wakeup",
    "carried_fn_keeps_wakeup", "carried_fn_lost_wakeup_before_repair", "inconsistent_noop_patch_keeps_wakeup", "noop_fn_keeps_wakeup",
    "add_on_match", "remove_on_mismatch", "add_remove_on_match",
    "requires_iff", "requires_order_irrelevant", "requires_every_registration", "dedup_before_match_loses_requirement_witness",
    "sync_task_done_implies_returned", "sync_cancellation_not_lost", "sync_task_finishes_after_return", "stop_no_delay_spec",
    "release_waits_for_sync_daemon", "detached_thread_witness", "detached_release_witness",
    "never_two_invocations", "live_invocation_is_recorded", "no_delay_only_when_all_exited_or_abandoned",
    "respawn_over_abandoned_witness", "respawn_two_alive_witness"]]
TIE_THEOREMS = [("Kopf.Tie.C06", "Kopf.C06.Tie." + n) for n in [
    "mustBlock_eq", "add_eq", "remove_eq", "early_eq", "release_eq", "wait_eq", "effects_eq", "decision_eq", "carry_eq", "changed_eq"]]
RULE = ("D: finalizer lists over an alphabet with the own name 0-3 times, look-alikes, unicode, empty/absent containers, bodies with "
        "and without a deletion mark and labels, and fn sequences of length 0-4 through the real functions and Patch.as_json_patch; "
        "D2: registries of 0-5 registrations made with kopf's decorators (mandatory/optional deletion handlers, daemons, timers, "
        "create/update/resume/event handlers, 1-3 functions registered several times under one id with different label/annotation "
        "filters, another resource, explicit ids) x objects (labels, annotations, marked) x exclusion sets; S/A: seeded scenarios with 0-2 deletion handlers "
        "(optional/mandatory, label filters, one function STACKED twice under one id with different filters, outcome scripts, "
        "retries, invocations that take time), daemons (obey/cancel/ignore/exit/linger = slow clean-up after the flag; cancellation "
        "timeouts incl. 0, a backoff without a timeout, none at all; stacked registrations; drag = a clean-up of 0.5-12 s after the stop that "
        "swallows cancellations and then exits: an invocation given up on after its timeout is seen to END later), a family of RE-MATCH "
        "histories (gen_rematch: the label filter of a daemon/timer stops matching, 0-2 visits meanwhile, the label comes back 0.25-13 s later "
        "= before/after the cancellation timeout and before/after the previous invocation has ended, 1-3 such rounds, more edits, optional "
        "restart, then the deletion), timers (instant or slow invocations, "
        "stacked), a configured finalizer name (kopf's default name is then a foreign finalizer), non-requiring handlers, event handlers with "
        "constant results (no-op merge content) or with state-checking patch fns that have nothing to change, label/spec edits, "
        "foreign finalizer edits, strip of the own finalizer, deletion at random moments, stops/kills/restarts, slips (a foreign "
        "write right before the operator's n-th PATCH), injected 422, API outages (5xx), delayed watch events with the stream cut "
        "(and compacted) at some moment = lost echoes; one case = one processing cycle (decision incl. the delays "
        "flag, JSON-patch outcome, carried fns, sleep-then-touch) resp. one whole trace (acceptance); distinct & non-trivial = "
        "distinct abstracted tuples in which a fn was queued, carried or a requirement was in force; R: label lists of 1-10 labels "
        "(0-8 cancellations, the function returning/raising at any position or not at all, loop turns in between or not) for the real "
        "invoke; objects with a SYNC daemon (cancellation_backoff none/1/8/1/4 s x cancellation_timeout none/0/1/8/60/600/3600 s; function "
        "busy = blind to the stop flag until let go, or obeying it) or a SYNC timer, default or configured finalizer name, foreign "
        "finalizers, deletion requested while the function runs, further events / pauses beyond the short timeouts, the function "
        "returning or raising at some moment or only in the end; non-trivial = a cancellation resp. a stop request while the function runs")
TRUSTED = ["harness/props/threads_c06.py (real loop + ThreadPoolExecutor; gates = threading.Event; `return` blocks the loop thread until the "
           "executor future's done-callbacks have run; the minimal worker feeding process_resource_event one cycle per stored version; "
           "'function running' is read on the loop thread at the instant of the write)",
           "harness/props/sim_c06.py (stacked registrations, handler-supplied patch fns, foreign-finalizer ops for a configured finalizer name, "
           "the `linger` and `drag` daemons, the per-invocation watcher of the `stopped` kwarg = the instant an invocation was told to stop; for tie L the "
           "wrappers of daemons.spawn_daemons / stop_daemons / _runner and of FlagSetter.set (module/class attributes, additive): invocations are numbered in the "
           "order in which spawn_daemons recorded a new Daemon under the id, identified by their stopper object; 'alive' = its `_runner` has not left its "
           "epilogue; the state is read from memory.running_daemons and the stoppers at the instant of the label, with no suspension point in between; the "
           "epilogue's own stopper.set(DONE) is not a label; two visits of one id inside one spawn_daemons call are observed after the second only) on top of harness/sim (virtual-time loop, fake API server incl. JSON-patch `test` → 422 and deletion by last-finalizer removal, "
           "scripted handlers/daemons, attribute-level observation of kopf)",
           "pyextract atom vocabulary for the finalizer block of processing.process_resource_causes",
           "abstraction of a cycle: matching = label filters of the scenario's handlers evaluated on the body the cycle was given; "
           "`consistent` is read off whether process_changing_cause was reached; `deadline` = the consistency_time the worker passed "
           "to the cycle; spawning delays = what process_spawning_cause returned; carried fns (`patch_initially_empty`) = what the "
           "patch holds when process_resource_causes is entered"]
ASSUMPTIONS = ["handler filters in generated scenarios are label filters only; D2 adds annotation filters and the resource selector; "
               "field/when filters are C15's subject: `prematch`/`match` enter the loop model as one Boolean per registration",
               "foreign actors never add or remove the framework's own finalizer except through the explicit strip op, which the "
               "oracle attributes to them (a trace is replayed up to such a write)",
               "trace acceptance covers scenarios with at most one mandatory deletion handler (stacked registrations count as one) and "
               "at most one daemon/timer, where the model's Booleans are exact; others are tied per cycle (S) only",
               "in the replay the daemon's exit/abandonment and the deletion handler's completion are environment labels reconciled "
               "from the operator's memory snapshot and the progress records (that stop_daemons stops reporting a delay exactly when "
               "the task is done or its timeouts have passed is C09's subject); a trace is replayed up to a cycle in which a daemon "
               "instance that was asked to stop for a filter mismatch still holds its id while the object matches again (/repo ef26531: "
               "such cycles return a polling delay on an UNMARKED matching object — no release is at stake there; the per-cycle tie S "
               "takes the observed spawning delays and covers those cycles)",
               "tie L abstracts nothing about time: when the timeouts are over (`abandon` enabled) is taken from the run (C09 owns the stages; tie R has "
               "`stopDelay`); the report of a stop_daemons call is compared only when the call was given exactly one daemon (the delays are not "
               "attributed per daemon otherwise); pause_daemons is not exercised (no peering in the simulations); the model runs with `reuse = false`",
               "'finished' in the oracle = the latest handling pass before the instant left the handler finished (record kept, or "
               "final outcome in that pass); a purged-and-reinvoked handler counts as unfinished again",
               "liveness: the oracle judges only histories whose last 25 virtual seconds are quiet and in which no 422 was injected "
               "(injected 5xx answers are judged: open finding F10 — the LTS has no label for a cycle that dies in its patching, the "
               "liveness theorems are about cycles that run to their end); "
               "fairness (enabled operator steps are eventually taken, a consistent quiet cycle eventually comes) is not a theorem",
               "the pause of the operator (peering) is neither simulated nor in the LTS: a paused cycle's early exit returns no delay by "
               "design (the un-pausing brings a fresh listing) — C07's subject; the atom `paused` is translated and tied, and fed `false`",
               "carried handler-supplied fns that DO change the object are outside the LTS (generated fns have nothing to change); the "
               "wake-up layer lets a cycle leave as inconsistent only while a version is awaited or with a carried patch (tie A would "
               "reject any other trace)",
               "merge patches with resourceVersion in the body are answered 409 if stale by this property's own worker only "
               "(harness/props/sim_c06.py); unrepaired kopf never sends one"]

DEFAULT_OWN = "kopf.zalando.org/KopfFinalizerMarker"
OWN = DEFAULT_OWN      # the operator's own finalizer in the scenario under evaluation: settings.persistence.finalizer (see `_use`)
CUSTOM_OWNS = ["ops.example.com/kopf-marker", "fin"]


def _use(sc: dict | None) -> str:
    """Evaluate what follows for this scenario's own finalizer name (kopf's default unless the scenario configures one)."""
    global OWN
    OWN = ((sc or {}).get("settings") or {}).get("persistence.finalizer") or DEFAULT_OWN
    return OWN


LAT = 1.0 / 64
CHANGING_KINDS = ("create", "update", "delete", "resume", "field")
SPAWNING_KINDS = ("daemon", "timer")
SIG_F5 = {"site": "processing.process_resource_event",
          "shape": "stale allow_deletion from remaining_patch applied while a finalizer is required"}
SIG_F5B = {"site": "patching.patch_obj",
           "shape": "allow_deletion decided on a stale body passes the resourceVersion test re-based on the cycle's own merge-patch response while a finalizer is required"}
SIG_F5C = {"site": "processing.process_resource_event",
           "shape": "stale block_deletion from remaining_patch applied while the cycle decided no addition"}
SIG_F6 = {"site": "queueing.worker",
          "shape": "never released: every cycle re-patches a no-op (constant on.event result); the version it waits for was already processed, state-dependent handlers and the release are skipped forever"}
SIG_F7 = {"site": "application.apply",
          "shape": "never released: delays with a non-empty patch that changes nothing: the sleep-then-touch is skipped and no event follows"}
SIG_F8 = {"site": "application.apply",
          "shape": "never released: delays with a non-empty patch that sends no request (only transformation fns without operations): taken for a change, the sleep-then-touch is skipped and no event follows"}
SIG_F9 = {"site": "process_resource_causes+apply",
          "shape": "never released: cycle entered with a carried handler-supplied fn that has nothing to change: state-dependent part skipped, nothing sent, no further event"}
SIG_F10 = {"site": "throttlers.throttled+queueing.worker",
           "shape": "never released: the cycle failed on an API error that outlasted the request retries; the error is swallowed, the "
                    "throttling pause ends without re-processing and no event follows"}
SIG_N6 = {"site": "process_resource_causes",
          "shape": "never released: the cycle still awaits the version of its own last write, its non-empty patch brings no event: it leaves "
                   "before the handlers and the release without a delay, no event follows"}
SIG_THREAD = {"site": "invocation.invoke+daemons.stop_daemons",
              "shape": "own finalizer removed while the function of a matching sync daemon/timer is running in its thread and the daemon is not abandoned"}
SIG_EARLY = {"site": "processing.process_resource_causes", "shape": "own finalizer removed while a finalizer is required"}


# =============================================================================================
# (T) translator
# =============================================================================================
MUST_VOCAB = {
    "spawning_cause is not None": "a.spawning",
    "registry._spawning.requires_finalizer(cause=spawning_cause, excluded=memory.daemons_memory.forever_stopped)": "a.spawnReq",
    "changing_cause is not None": "a.changing",
    "registry._changing.requires_finalizer(cause=changing_cause)": "a.changeReq",
}
COND_VOCAB = {
    "deletion_must_be_blocked": "mustBlock a",
    "finalizers.is_deletion_blocked(body=body, finalizer=finalizer)": "a.isBlocked",
    "finalizers.is_deletion_ongoing(body=body)": "a.isOngoing",
    "raw_event['type'] == 'DELETED'": "a.deletedEvent",
    "delays": "a.delaysNonEmpty",
}
GATE_VOCAB = {
    "changing_cause is not None": "a.changingAfter",
    "consistency_is_achieved": "a.consistent",
}
WAIT_VOCAB = {
    "consistency_time is not None": "a.deadline",
    "operator_paused is not None and operator_paused.is_on()": "a.paused",
    "patch_initially_empty": "a.initiallyEmpty",
}
# the early exit of the consistency gate (since /repo 30557a0 and the rework 02af7ce of 608a57d): the spawning delays plus one
# waiting delay — the rest of the waiting time, or zero after a carried patch — under a translated chain of conditions
EARLY_BODY = ["waiting_delays: Collection[float] = []",
              None,     # `if … : pass  elif … : waiting_delays = [<one delay>]  elif …` — translated
              "return (list(spawning_delays) + list(waiting_delays), False)"]
EARLY_WAITS = ("waiting_delays = [max(0.0, consistency_time - asyncio.get_running_loop().time())]", "waiting_delays = [0.0]")


def _wait_chain(st: ast.stmt, tr: Any) -> str:
    """`if c1: <branch> elif c2: <branch> …` → Lean Bool: is a waiting delay appended? A branch is `pass` (no) or one of
    the two known assignments of a one-element list (yes); no else-part means no."""
    if not isinstance(st, ast.If):
        raise ExtractError(f"early exit: expected an if-chain, found `{pyextract.norm(st)[:120]}`")
    body = [pyextract.norm(x) for x in st.body]
    if body == ["pass"]:
        then = "false"
    elif len(body) == 1 and body[0] in EARLY_WAITS:
        then = "true"
    else:
        raise ExtractError(f"early exit: unexpected branch `{'; '.join(body)[:160]}`")
    if not st.orelse:
        other = "false"
    elif len(st.orelse) == 1:
        other = _wait_chain(st.orelse[0], tr)
    else:
        raise ExtractError("early exit: an else-part with several statements")
    return f"(if {tr.tr(st.test)} then {then} else {other})"
APPEND = "patch.fns.append(functools.partial(finalizers.{fn}, finalizer=finalizer))"
FN_LEAN = {"block_deletion": "Fn.block", "allow_deletion": "Fn.allow"}


def _branch_effect(st: ast.If) -> tuple[str, bool]:
    """Body of one of the three finalizer branches → (fn appended, sets `changing_cause = None`)."""
    if st.orelse:
        raise ExtractError(f"finalizer branch with an else-part: `{pyextract.norm(st.test)}`")
    fn, nulls = None, False
    for s in st.body:
        t = pyextract.norm(s)
        if t.startswith("local_logger.debug("):
            continue
        if t == "changing_cause = None":
            nulls = True
            continue
        for name in FN_LEAN:
            if t == APPEND.format(fn=name):
                if fn is not None:
                    raise ExtractError("two fns appended in one finalizer branch")
                fn = name
                break
        else:
            raise ExtractError(f"unexpected statement in a finalizer branch: `{t[:120]}`")
    if fn is None:
        raise ExtractError(f"finalizer branch appends no fn: `{pyextract.norm(st.test)}`")
    return fn, nulls


def extract(ctx: Ctx) -> None:
    tree = pyextract.parse_file(ctx.repo / "kopf/_core/reactor/processing.py")
    fn = pyextract.find_def(tree, "process_resource_causes")
    body = pyextract.body_without_docstring(fn)
    texts = [pyextract.norm(s) for s in body]

    def index(pred: Any, what: str) -> int:
        hits = [i for i, s in enumerate(body) if pred(s, texts[i])]
        if len(hits) != 1:
            raise ExtractError(f"process_resource_causes: expected exactly one {what}, found {len(hits)}")
        return hits[0]

    def assign_to(name: str) -> Any:
        return lambda s, t: isinstance(s, ast.Assign) and len(s.targets) == 1 and isinstance(s.targets[0], ast.Name) \
            and s.targets[0].id == name

    i_ongoing = index(assign_to("deletion_is_ongoing"), "assignment of deletion_is_ongoing")
    i_blocked = index(assign_to("deletion_is_blocked"), "assignment of deletion_is_blocked")
    i_must = index(assign_to("deletion_must_be_blocked"), "assignment of deletion_must_be_blocked")
    i_delays = index(assign_to("delays"), "assignment of delays")
    i_deleted = index(assign_to("deleted"), "assignment of deleted")
    i_req = index(assign_to("consistency_is_required"), "assignment of consistency_is_required")
    appenders = [i for i, s in enumerate(body) if isinstance(s, ast.If) and any("patch.fns.append" in pyextract.norm(x) for x in s.body)]
    total_appends = sum(1 for n in ast.walk(fn) if isinstance(n, ast.Attribute) and n.attr == "append"
                        and pyextract.norm(n.value) == "patch.fns")
    if len(appenders) != 3 or total_appends != 3:
        raise ExtractError(f"process_resource_causes: expected 3 top-level branches appending to patch.fns, found "
                           f"{len(appenders)} (append sites: {total_appends})")
    i_add, i_rem, i_rel = appenders
    i_early = index(lambda s, t: isinstance(s, ast.If) and isinstance(s.body[-1], ast.Return)
                    and "consistency_is_required" in pyextract.norm(s.test), "early return of the consistency gate")
    i_pcc = index(lambda s, t: isinstance(s, ast.If) and "process_changing_cause(" in t, "call of process_changing_cause")
    order = [i_ongoing, i_blocked, i_must, i_add, i_rem, i_req, i_early, i_pcc, i_delays, i_deleted, i_rel]
    if not (max(i_ongoing, i_blocked) < i_must and order[2:] == sorted(order[2:])):
        raise ExtractError("process_resource_causes: the finalizer block is no longer in the modelled order")
    # fixed-shape statements the model's composition relies on
    expect = {
        i_req: "consistency_is_required = changing_cause is not None",
        i_delays: "delays = list(spawning_delays) + list(changing_delays)",
        i_deleted: "deleted = raw_event['type'] == 'DELETED'",
    }
    for i, want in expect.items():
        if texts[i] != want:
            raise ExtractError(f"process_resource_causes: expected `{want}`, found `{texts[i][:160]}`")
    # the early exit: what it returns as delays
    est = body[i_early]
    ebody = [pyextract.norm(x) for x in est.body]
    if (pyextract.norm(est.test) != "consistency_is_required and (not consistency_is_achieved)" or est.orelse
            or len(est.body) != 3 or ebody[0] != EARLY_BODY[0] or ebody[2] != EARLY_BODY[2]):
        raise ExtractError("process_resource_causes: the early exit of the consistency gate no longer returns "
                           "`list(spawning_delays) + list(waiting_delays)` with one conditional waiting delay; "
                           f"found `{texts[i_early][:400]}`")
    wait_c = _wait_chain(est.body[1], pyextract.BoolTranslator(WAIT_VOCAB))
    n_wait = sum(1 for n in ast.walk(fn) if isinstance(n, (ast.Assign, ast.AnnAssign, ast.AugAssign))
                 and "waiting_delays" in [pyextract.norm(t) for t in (n.targets if isinstance(n, ast.Assign) else [n.target])])
    if n_wait != 1 + sum(1 for n in ast.walk(est.body[1]) if isinstance(n, ast.Assign)):
        raise ExtractError("process_resource_causes: `waiting_delays` is assigned in an unmodelled place")
    if texts[0] != "patch_initially_empty = not patch" or sum(1 for n in ast.walk(fn) if isinstance(n, (ast.Assign, ast.AnnAssign, ast.AugAssign))
            and "patch_initially_empty" in [pyextract.norm(t) for t in (n.targets if isinstance(n, ast.Assign) else [n.target])]) != 1:
        raise ExtractError("process_resource_causes: `patch_initially_empty` is no longer `not patch` at the head of the function")
    if not (texts[i_pcc].startswith("if changing_cause is not None:\n    changing_delays = await process_changing_cause(")
            and "changing_delays: Collection[float] = []" in texts[i_early + 1:i_pcc + 1]):
        raise ExtractError("process_resource_causes: changing_delays is no longer [] unless process_changing_cause runs")
    # `changing_cause` is re-bound only by the prematch narrowing and the two early branches
    rebinds = [n for n in ast.walk(fn) if isinstance(n, ast.Assign) and any(isinstance(t, ast.Name) and t.id == "changing_cause" for t in n.targets)]
    if len(rebinds) != 3 or any(pyextract.norm(r) != "changing_cause = None" for r in rebinds):
        raise ExtractError("process_resource_causes: `changing_cause` is re-bound in an unmodelled place")
    for name in ("deletion_must_be_blocked", "deletion_is_blocked", "deletion_is_ongoing"):
        if sum(1 for n in ast.walk(fn) if isinstance(n, (ast.Assign, ast.AugAssign, ast.AnnAssign))
               and name in [pyextract.norm(t) for t in (n.targets if isinstance(n, ast.Assign) else [n.target])]) != 1:
            raise ExtractError(f"process_resource_causes: `{name}` is assigned more than once")

    must = pyextract.BoolTranslator(MUST_VOCAB).tr(body[i_must].value)
    locals_ = {"deletion_is_ongoing": body[i_ongoing].value, "deletion_is_blocked": body[i_blocked].value,
               "deleted": body[i_deleted].value}
    ctr = pyextract.BoolTranslator(COND_VOCAB, locals_)
    add_c, rem_c, rel_c = (ctr.tr(body[i].test) for i in (i_add, i_rem, i_rel))
    gtr = pyextract.BoolTranslator(GATE_VOCAB, {"consistency_is_required": body[i_req].value})
    early_c = gtr.tr(body[i_early].test)
    effects = [_branch_effect(body[i]) for i in (i_add, i_rem, i_rel)]

    # what survives a rejected JSON patch: process_resource_event filters the remaining fns through _is_finalizer_fn
    pre = pyextract.find_def(tree, "process_resource_event")
    pre_stmts = sorted((n for n in ast.walk(pre) if isinstance(n, (ast.Assign, ast.AnnAssign))), key=lambda n: n.lineno)
    pre_texts = [pyextract.norm(n) for n in pre_stmts]
    carry_stmts = ["carried_fns = [fn for fn in remaining_patch.fns if not _is_finalizer_fn(fn)]",
                   "remaining_patch = patches.Patch(fns=carried_fns) if carried_fns else None",
                   "memory.remaining_patch = remaining_patch"]
    pos = [pre_texts.index(t) if t in pre_texts else -1 for t in carry_stmts]
    stores = [t for t in pre_texts if t.startswith("memory.remaining_patch =")]
    if -1 in pos or pos != sorted(pos) or stores != [carry_stmts[2]]:
        raise ExtractError("process_resource_event: the remaining patch is not stored through the `_is_finalizer_fn` filter "
                           "(memory.remaining_patch would carry the framework's own finalizer edits), or is re-bound in an unmodelled place")
    # the cycle's patch starts with what was carried (`patch_initially_empty` reads it), and is bound once
    start = "patch = patches.Patch(memory.remaining_patch, body=body)"
    if [t for t in pre_texts if t.startswith("patch =")] != [start]:
        raise ExtractError("process_resource_event: the cycle's patch is no longer `Patch(memory.remaining_patch, body=body)`, bound once "
                           "(carried transformations are dropped or re-bound before the cycle)")
    try:
        isf = pyextract.find_def(tree, "_is_finalizer_fn")
    except ExtractError:
        raise ExtractError("processing._is_finalizer_fn not found")
    ib = pyextract.body_without_docstring(isf)
    ok = (len(ib) == 1 and isinstance(ib[0], ast.Return) and isinstance(ib[0].value, ast.BoolOp) and isinstance(ib[0].value.op, ast.And)
          and len(ib[0].value.values) == 2 and pyextract.norm(ib[0].value.values[0]) == "isinstance(fn, functools.partial)")
    dropped: list[str] = []
    if ok:
        cmp = ib[0].value.values[1]
        ok = (isinstance(cmp, ast.Compare) and pyextract.norm(cmp.left) == "fn.func" and len(cmp.ops) == 1 and isinstance(cmp.ops[0], ast.In)
              and isinstance(cmp.comparators[0], ast.Tuple))
        if ok:
            for e in cmp.comparators[0].elts:
                t = pyextract.norm(e)
                if not t.startswith("finalizers.") or t.split(".", 1)[1] not in FN_LEAN:
                    raise ExtractError(f"_is_finalizer_fn: unexpected member `{t}`")
                dropped.append(FN_LEAN[t.split(".", 1)[1]])
    if not ok:
        raise ExtractError("_is_finalizer_fn is no longer `isinstance(fn, functools.partial) and fn.func in (…)`")

    # nobody else in kopf references the two transformation functions
    users = []
    for path in sorted((ctx.repo / "kopf").rglob("*.py")):
        t = pyextract.parse_file(path)
        for n in ast.walk(t):
            if isinstance(n, ast.Attribute) and n.attr in FN_LEAN or isinstance(n, ast.Name) and n.id in FN_LEAN:
                users.append(str(path.relative_to(ctx.repo)))
    in_filter = sum(1 for n in ast.walk(isf) if isinstance(n, ast.Attribute) and n.attr in FN_LEAN)
    if sorted(users) != ["kopf/_core/reactor/processing.py"] * (3 + in_filter):
        raise ExtractError(f"block_deletion/allow_deletion are referenced outside the three modelled sites and the carry filter: {sorted(set(users))}")

    # application.apply: when is the sleep-then-touch for the delays skipped?
    atree = pyextract.parse_file(ctx.repo / "kopf/_core/actions/application.py")
    afn = pyextract.find_def(atree, "apply")
    assigns = {n.targets[0].id: n.value for n in ast.walk(afn)
               if isinstance(n, ast.Assign) and len(n.targets) == 1 and isinstance(n.targets[0], ast.Name)}
    for name in ("unknown", "changed", "seen_version"):
        if name not in assigns or sum(1 for n in ast.walk(afn) if isinstance(n, ast.Assign) and any(
                isinstance(t, ast.Name) and t.id == name for t in n.targets)) != 1:
            raise ExtractError(f"application.apply: expected exactly one assignment of `{name}`")
    if pyextract.norm(assigns["seen_version"]) != "body.get('metadata', {}).get('resourceVersion')":
        raise ExtractError("application.apply: `seen_version` is no longer the version of the body the cycle worked on")
    ifs = [pyextract.norm(n.test) for n in ast.walk(afn) if isinstance(n, ast.If)]
    if "delay and changed" not in ifs or "changed and (not delay)" not in ifs:
        raise ExtractError("application.apply: the sleep is no longer skipped by `if delay and changed` / the touch by `if changed and not delay`")
    atr = pyextract.BoolTranslator({"bool(patch)": "a.patchNonEmpty", "resource_version is None": "a.noVersion",
                                    "resource_version is not None": "(!a.noVersion)", "remaining_patch is not None": "a.remaining",
                                    "resource_version != seen_version": "a.versionDiffers"}, {"unknown": assigns["unknown"]})
    changed_c = atr.tr(assigns["changed"])

    def eff(e: tuple[str, bool]) -> str:
        return f"({FN_LEAN[e[0]]}, {'true' if e[1] else 'false'})"

    out = pyextract.HEADER.format(src="kopf/_core/reactor/processing.py (process_resource_causes)")
    out += "import Kopf.Model.C06_Finalizer\nnamespace Kopf.C06.Extracted\nopen Kopf.C06\n\n"
    out += f"def mustBlock (a : Atoms) : Bool :=\n  {must}\n\n"
    out += f"def addCond (a : Atoms) : Bool :=\n  {add_c}\n\n"
    out += f"def removeCond (a : Atoms) : Bool :=\n  {rem_c}\n\n"
    out += f"def earlyCond (a : Atoms) : Bool :=\n  {early_c}\n\n"
    out += f"def releaseCond (a : Atoms) : Bool :=\n  {rel_c}\n\n"
    out += "/-- inside the early exit: the rest of the waiting time is returned as one more delay -/\n"
    out += f"def waitCond (a : Atoms) : Bool :=\n  {wait_c}\n\n"
    out += "/-- (fn appended, `changing_cause = None`) per branch -/\n"
    out += f"def addEffect : Fn × Bool := {eff(effects[0])}\n"
    out += f"def removeEffect : Fn × Bool := {eff(effects[1])}\n"
    out += f"def releaseEffect : Fn × Bool := {eff(effects[2])}\n"
    out += f"def appendSites : Nat := {total_appends}\n"
    out += f"def earlyReturnsBeforeRelease : Bool := {'true' if i_early < i_pcc < i_rel else 'false'}\n"

    out += "/-- the fns `_is_finalizer_fn` recognises: dropped from `memory.remaining_patch` after a rejected patch -/\n"
    out += f"def ownFns : List Fn := [{', '.join(dropped)}]\n\n"
    out += "/-- application.apply: `changed` (the sleep-then-touch for the delays is skipped iff `delay and changed`) -/\n"
    out += f"def changed (a : ApplyAtoms) : Bool :=\n  {changed_c}\n\n"
    out += "end Kopf.C06.Extracted\n"
    leanio.write_generated("Kopf/Extracted/C06.lean", out)


# =============================================================================================
# (D) the real list functions
# =============================================================================================
ALPHABET = [OWN, OWN, "other.io/a", "other.io/b", "x", "", OWN + "2", OWN.lower(), "финализатор/я", "kopf.zalando.org/"]


def _gen_list(rng: Any) -> list[str]:
    n = rng.choice([0, 0, 1, 1, 2, 3, 4, 6])
    return [rng.choice(ALPHABET) for _ in range(n)]


def spec_block(f: str, l: list[str]) -> list[str]:
    """From the property: the own finalizer is on the list afterwards; nothing else is added, dropped or moved."""
    return list(l) if f in l else list(l) + [f]


def spec_allow(f: str, l: list[str]) -> list[str]:
    return [x for x in l if x != f]


def run_lists(ctx: Ctx) -> None:
    from kopf._cogs.structs import bodies, finalizers, patches
    _use(None)
    reqs, impls, inputs = [], [], []
    n = ctx.budget(1500, 40000)
    for k in range(n):
        l = _gen_list(ctx.rng)
        f = OWN if ctx.rng.random() < 0.8 else ctx.rng.choice(ALPHABET)
        shape = ctx.rng.choice(["list", "list", "list", "no-fins", "no-meta"]) if not l else "list"
        body: dict[str, Any] = {"metadata": {"name": "a", "finalizers": list(l)}, "spec": {}}
        if shape == "no-fins":
            body = {"metadata": {"name": "a"}, "spec": {}}
        elif shape == "no-meta":
            body = {"spec": {}}
        # the functions get the whole body: what else it holds (a deletion mark, labels) must not matter
        marked = "metadata" in body and ctx.rng.random() < 0.35
        if marked:
            body["metadata"]["deletionTimestamp"] = "2020-01-01T00:00:00Z"
            if ctx.rng.random() < 0.5:
                body["metadata"]["labels"] = {"l": "1"}
        ctx.count("D.marked", marked)
        fns = [ctx.rng.choice(["block_deletion", "allow_deletion"]) for _ in range(ctx.rng.choice([1, 1, 1, 2, 3, 4, 0]))]
        mode = ctx.rng.choice(["direct", "direct", "jsonpatch"])
        ctx.count("D.list_len", len(l))
        ctx.count("D.own_count", l.count(f))
        ctx.count("D.mode", mode)
        ctx.count("D.fns", ",".join(x[0] for x in fns) or "-")
        want = list(l)
        for name in fns:
            want = spec_block(f, want) if name == "block_deletion" else spec_allow(f, want)
        if mode == "direct":
            b = copy.deepcopy(body)
            for name in fns:
                getattr(finalizers, name)(b, f)
            got = list((b.get("metadata") or {}).get("finalizers", []))
            # side conditions of allow_deletion: empty containers are removed, never left behind
            if fns and fns[-1] == "allow_deletion" and ("finalizers" in (b.get("metadata") or {}) and not b["metadata"]["finalizers"]):
                ctx.oracle_fail("allow_deletion left an empty finalizers list behind", {"body": body, "finalizer": f, "fns": fns},
                                {"site": "finalizers.allow_deletion", "shape": "empty list left"})
            blocked = finalizers.is_deletion_blocked(bodies.Body(b), f)
            if blocked != (f in got):
                ctx.oracle_fail("is_deletion_blocked disagrees with the list", {"body": b, "finalizer": f},
                                {"site": "finalizers.is_deletion_blocked"})
        else:
            patch = patches.Patch(body=bodies.Body(copy.deepcopy(body)),
                                  fns=[functools.partial(getattr(finalizers, name), finalizer=f) for name in fns])
            ops = patch.as_json_patch() if patch else []
            try:
                after = rfc.apply_json_patch(copy.deepcopy(body), ops)
            except rfc.PatchError as e:
                ctx.oracle_fail(f"the JSON patch built from the fns does not apply to its own reference body: {e}",
                                {"body": body, "finalizer": f, "fns": fns, "ops": ops}, {"site": "Patch.as_json_patch", "shape": "inapplicable ops"})
                continue
            got = list((after.get("metadata") or {}).get("finalizers", []) or [])
            if {k2: v for k2, v in after.items() if k2 != "metadata"} != {k2: v for k2, v in body.items() if k2 != "metadata"}:
                ctx.oracle_fail("the finalizer fns changed something outside metadata", {"body": body, "ops": ops},
                                {"site": "Patch.as_json_patch", "shape": "foreign fields touched"})
        # nothing else of the metadata is touched either (the deletion mark, the labels, the name)
        after_b = b if mode == "direct" else after
        rest = lambda x: {k2: v for k2, v in ((x.get("metadata") or {}).items()) if k2 != "finalizers"}   # noqa: E731
        if rest(after_b) != rest(body):
            ctx.oracle_fail("the finalizer fns changed metadata other than the finalizer list",
                            {"body": body, "finalizer": f, "fns": fns, "mode": mode, "after": after_b},
                            {"site": "finalizers." + (fns[-1] if fns else "none"), "shape": "other metadata touched"})
        key = {"l": [("own" if x == f else "o") for x in l], "fns": fns, "mode": mode, "shape": shape, "marked": marked}
        ctx.case(key=key, nontrivial=got != l, sample={"finalizer": f, "list": l, "fns": fns, "mode": mode, "impl": got} if k < 2 else None)
        # oracle, from the statement: foreign ones exactly as before, in order; own present/absent as the last fn says
        if [x for x in got if x != f] != [x for x in l if x != f]:
            ctx.oracle_fail("foreign finalizers were added, dropped or reordered", {"finalizer": f, "list": l, "fns": fns, "mode": mode, "got": got},
                            {"site": "finalizers." + (fns[-1] if fns else "none"), "shape": "foreign finalizers changed"})
        elif fns and ((f in got) != (fns[-1] == "block_deletion") or got.count(f) > max(1, l.count(f))):
            ctx.oracle_fail("the own finalizer is not present/absent as the last transformation demands",
                            {"finalizer": f, "list": l, "fns": fns, "mode": mode, "got": got},
                            {"site": "finalizers." + fns[-1], "shape": "own finalizer presence"})
        # where exactly the own finalizer lands (appended at the end) is the model's business, not the property's:
        # `got != want` alone is left to the tie comparison below.
        reqs.append(["C06.fns", f, fns, l])
        impls.append(got)
        inputs.append({"finalizer": f, "list": l, "fns": fns, "mode": mode})
    # malformed stream: what kopf does is recorded, not compared (outside the model's domain)
    for bad in ({"metadata": {"finalizers": None}}, {"metadata": None}, {"metadata": {"finalizers": "abc"}}):
        try:
            finalizers.block_deletion(copy.deepcopy(bad), OWN)  # type: ignore[arg-type]
            ctx.count("D.malformed", "no-error")
        except (TypeError, AttributeError) as e:
            ctx.count("D.malformed", type(e).__name__)
    try:
        outs = ctx.driver.ask(reqs)
    except leanio.LeanError as e:
        raise RuntimeError(f"Lean driver failed (toolchain/harness problem, not a verdict): {e}\n{e.log[-1500:]}")
    for inp, impl, out in zip(inputs, impls, outs):
        ctx.compare("C06 finalizer list functions", impl, out[1] if out and out[0] == "ok" else out, inp)


# =============================================================================================
# (D2) who requires the finalizer: the real registries' `requires_finalizer`
# =============================================================================================
REG_KINDS = ["delete", "delete", "delete", "delete-optional", "create", "update", "resume", "daemon", "daemon", "timer", "event"]
REG_LABELS = [None, None, {"l": "1"}, {"m": "1"}, {"l": "1", "m": "1"}, {"l": "0"}]
REG_ANNOTATIONS = [None, None, None, {"a": "1"}]


def _filters_match(reg: dict, labels: dict, annotations: dict) -> bool:
    """From the statement: a handler 'matches' the object when all its label and annotation filters hold."""
    return all(labels.get(k) == v for k, v in (reg["labels"] or {}).items()) and \
        all(annotations.get(k) == v for k, v in (reg["annotations"] or {}).items())


def _ask_registry(inp: dict) -> bool:
    """Re-build the registry of a recorded D2 case with kopf's decorators and ask it again."""
    import logging

    import kopf
    from kopf._cogs.structs import bodies, patches, references
    from kopf._core.engines import indexing
    from kopf._core.intents import causes, registries
    registry = registries.OperatorRegistry()
    fns: dict[int, Any] = {}
    for d in inp["registrations"]:
        if d["fn"] not in fns:
            async def fn(**_: Any) -> None:
                return None
            fn.__name__ = fn.__qualname__ = f"fn{d['fn']}"
            fns[d["fn"]] = fn
        kw: dict[str, Any] = {"registry": registry}
        for f in ("labels", "annotations"):
            if d.get(f):
                kw[f] = dict(d[f])
        if d.get("explicit_id"):
            kw["id"] = d["explicit_id"]
        if d["kind"] == "delete-optional":
            kw["optional"] = True
        if d["kind"] == "timer":
            kw["interval"] = 1.0
        deco = kopf.daemon if d["kind"] == "daemon" else kopf.timer if d["kind"] == "timer" else getattr(kopf.on, d["kind"].split("-")[0])
        deco("kopf.dev", "v1", d["resource"], **kw)(fns[d["fn"]])
    meta: dict[str, Any] = {"name": "a", "namespace": "ns", "uid": "u1", "labels": inp["labels"], "annotations": inp["annotations"]}
    if inp.get("marked"):
        meta["deletionTimestamp"] = "2020-01-01T00:00:00Z"
    common = dict(resource=references.Resource("kopf.dev", "v1", "kopfexamples", namespaced=True),
                  indices=indexing.OperatorIndexers().indices, logger=logging.getLogger("verif.c06"), patch=patches.Patch(),
                  body=bodies.Body({"metadata": meta, "spec": {"x": 0}}), memo=None)
    if inp["registry"] == "changing":
        return bool(registry._changing.requires_finalizer(cause=causes.ChangingCause(**common, initial=False, reason=causes.Reason(inp["reason"]))))
    return bool(registry._spawning.requires_finalizer(cause=causes.SpawningCause(**common, reset=False), excluded=frozenset(inp["excluded"])))


def run_registry(ctx: Ctx) -> None:
    """Registries built with kopf's own decorators — several registrations per function (stacked decorators: one id,
    different filters), optional and mandatory deletion handlers, handlers of other kinds and of another resource —
    asked `requires_finalizer` for generated objects and exclusion sets; vs. the loop model and vs. the statement."""
    import logging

    import kopf
    from kopf._cogs.structs import bodies, patches, references
    from kopf._core.engines import indexing
    from kopf._core.intents import causes, registries
    resource = references.Resource("kopf.dev", "v1", "kopfexamples", namespaced=True)
    logger = logging.getLogger("verif.c06")
    indexers = indexing.OperatorIndexers()
    reqs, impls, inputs = [], [], []
    n = ctx.budget(400, 6000)
    for k in range(n):
        rng = ctx.rng
        nfn = rng.choice([1, 2, 2, 3])
        fns = []
        for i in range(nfn):
            async def fn(**_: Any) -> None:
                return None
            fn.__name__ = fn.__qualname__ = f"fn{i}"
            fns.append(fn)
        decls = []
        registry = registries.OperatorRegistry()
        for _ in range(rng.choice([0, 1, 2, 2, 3, 4, 5])):
            kind = rng.choice(REG_KINDS)
            d = {"fn": rng.randrange(nfn), "kind": kind, "labels": rng.choice(REG_LABELS), "annotations": rng.choice(REG_ANNOTATIONS),
                 "resource": "kopfexamples" if rng.random() < 0.9 else "otherthings",
                 "explicit_id": rng.choice([None, None, None, "x"])}
            kw: dict[str, Any] = {"registry": registry}
            if d["labels"]:
                kw["labels"] = dict(d["labels"])
            if d["annotations"]:
                kw["annotations"] = dict(d["annotations"])
            if d["explicit_id"]:
                kw["id"] = d["explicit_id"]
            if kind == "delete-optional":
                kw["optional"] = True
            if kind == "timer":
                kw["interval"] = 1.0
            deco = kopf.daemon if kind == "daemon" else kopf.timer if kind == "timer" else getattr(kopf.on, kind.split("-")[0])
            deco("kopf.dev", "v1", d["resource"], **kw)(fns[d["fn"]])
            d["id"] = d["explicit_id"] or f"fn{d['fn']}"
            decls.append(d)
        labels = {kk: vv for kk, vv in (("l", rng.choice([None, "0", "1", "1"])), ("m", rng.choice([None, "0", "1"]))) if vv is not None}
        annotations = {"a": "1"} if rng.random() < 0.5 else {}
        marked = rng.random() < 0.3
        meta: dict[str, Any] = {"name": "a", "namespace": "ns", "uid": "u1", "labels": labels, "annotations": annotations}
        if marked:
            meta["deletionTimestamp"] = "2020-01-01T00:00:00Z"
        if rng.random() < 0.5:
            meta["finalizers"] = [DEFAULT_OWN]
        body = bodies.Body({"metadata": meta, "spec": {"x": 0}})
        ids = sorted({d["id"] for d in decls})
        excluded = sorted(rng.sample(ids, rng.randrange(0, len(ids) + 1))) if ids and rng.random() < 0.5 else []
        reason = rng.choice(["create", "update", "delete", "resume", "noop", "free"])
        common = dict(resource=resource, indices=indexers.indices, logger=logger, patch=patches.Patch(), body=body, memo=None)
        ccause = causes.ChangingCause(**common, initial=rng.random() < 0.3, reason=causes.Reason(reason))
        scause = causes.SpawningCause(**common, reset=False)
        for which in ("changing", "spawning"):
            mine = [d for d in decls if (d["kind"] in ("daemon", "timer")) == (which == "spawning") and d["kind"] != "event"]
            ex = excluded if which == "spawning" else []
            if which == "changing":
                got = bool(registry._changing.requires_finalizer(cause=ccause))
            else:
                got = bool(registry._spawning.requires_finalizer(cause=scause, excluded=frozenset(ex)))
            # the statement: a matching mandatory deletion handler, resp. a matching daemon/timer that may still run
            hits = [d for d in mine if d["resource"] == "kopfexamples" and _filters_match(d, labels, annotations)
                    and d["kind"] in ("delete", "daemon", "timer") and d["id"] not in ex]
            want = bool(hits)
            stacked = len({d["id"] for d in mine}) < len(mine)
            first_of_id: dict[str, dict] = {}
            for d in mine:
                first_of_id.setdefault(d["id"], d)
            later_only = want and not any(first_of_id[d["id"]] is d for d in hits)
            ctx.count("D2.registry", which)
            ctx.count("D2.required", want)
            ctx.count("D2.shape", "only a later registration of a stacked id matches" if later_only else
                      "stacked" if stacked else "plain")
            key = {"w": which, "regs": [[d["kind"], d["id"], d["resource"] == "kopfexamples", _filters_match(d, labels, annotations)] for d in mine],
                   "ex": ex}
            ctx.case(key=key, nontrivial=want or stacked or bool(ex), sample=None)
            inp = {"registry": which, "registrations": [{kk: vv for kk, vv in d.items()} for d in mine], "labels": labels,
                   "annotations": annotations, "marked": marked, "excluded": ex, "reason": reason}
            if got != want:
                ctx.oracle_fail(f"{which} registry: requires_finalizer = {got}, but " +
                                (f"registration(s) {[(d['kind'], d['id'], d['labels'], d['annotations']) for d in hits]} require the finalizer "
                                 f"and match the object" if want else "no finalizer-requiring registration matches the object"),
                                inp, {"site": f"registries.{'Changing' if which == 'changing' else 'Spawning'}Registry.requires_finalizer",
                                      "shape": "required but not reported" if want else "reported but not required"})
            reqs.append(["C06.requires", ex, [[d["id"], d["kind"] in ("delete", "daemon", "timer"),
                                               d["resource"] == "kopfexamples" and _filters_match(d, labels, annotations)] for d in mine]])
            impls.append(got)
            inputs.append(inp)
    try:
        outs = ctx.driver.ask(reqs)
    except leanio.LeanError as e:
        raise RuntimeError(f"Lean driver failed (toolchain/harness problem, not a verdict): {e}\n{e.log[-1500:]}")
    for inp, impl, out in zip(inputs, impls, outs):
        ctx.compare("C06 requires_finalizer of the registries", impl, out[1] if out and out[0] == "ok" else out, inp)


# =============================================================================================
# (S) scenarios
# =============================================================================================
def gen_scenario(rng: Any, seed: int) -> dict:
    handlers: list[dict] = []
    for k in range(rng.choice([0, 1, 1, 1, 2, 2])):
        opts: dict[str, Any] = {}
        if rng.random() < 0.3:
            opts["optional"] = True
        lab = rng.choice([None, "l", "l", "m"])
        if lab:
            opts["labels"] = {lab: "1"}
        if rng.random() < 0.25:
            opts["retries"] = rng.choice([1, 2])
        if rng.random() < 0.5:
            opts["backoff"] = rng.choice([0.5, 1.0, 2.0])
        script = []
        for _ in range(rng.choice([0, 0, 1, 1, 2, 3])):
            a = rng.choice(["ok", "temp", "temp", "perm", "arb"])
            a = ["temp", rng.choice([0.5, 1.0, 2.0, 3.0])] if a == "temp" else a
            if rng.random() < 0.12:
                a = ["sleep", rng.choice([0.5, 1.5, 3.0]), a]     # a handler that takes its time: things happen meanwhile
            script.append(a)
        hd: dict[str, Any] = {"kind": "delete", "id": f"d{k}", "opts": opts, "script": script, "default": rng.choice(["ok", "ok", "ok", "perm"])}
        if hd["default"] == "ok" and rng.random() < 0.15:
            hd["default"] = ["ok", {"r": k}]      # a result: goes to status.<id> in the very patch that releases the object
        if rng.random() < 0.08:
            hd["default"] = ["sleep", rng.choice([1.0, 2.5]), hd["default"]]
        if rng.random() < 0.15:
            # one function stacked twice under one id with different filters (both registrations decide the finalizer)
            common = {kk: vv for kk, vv in opts.items() if kk not in ("labels", "optional")}
            first, second = rng.sample(["l", "m"], 2)
            hd["stack"] = [{**common, "labels": {first: "1"}}, {**common, "labels": {second: "1"}}]
            if rng.random() < 0.25:
                hd["stack"][rng.randrange(2)]["optional"] = True
        handlers.append(hd)
    if rng.random() < 0.4:
        opts = {}
        if rng.random() < 0.5:
            opts["labels"] = {rng.choice(["l", "m"]): "1"}
        mode = rng.choice(["obey", "obey", "cancel", "ignore", "exit", "linger"])
        if mode in ("cancel", "ignore") or (mode == "linger" and rng.random() < 0.4):
            opts["cancellation_timeout"] = rng.choice([1.0, 2.0, 0]) if mode != "cancel" else rng.choice([1.0, 2.0])
            if rng.random() < 0.5:
                opts["cancellation_backoff"] = rng.choice([0.5, 1.0])
        elif mode == "linger" and rng.random() < 0.3:
            opts["cancellation_backoff"] = rng.choice([0.5, 1.0])      # a grace period, but no forced cancellation after it
        if rng.random() < 0.5:
            opts["cancellation_polling"] = rng.choice([0.5, 1.0])
        if mode in ("exit", "linger") and "cancellation_timeout" not in opts and rng.random() < 0.12:
            opts["cancellation_polling"] = 704.0    # beyond application.WAITING_KEEPALIVE_INTERVAL: the sleep is capped, then a touch
        hd = {"kind": "daemon", "id": "dm", "opts": opts,
              "daemon": {"mode": mode, "after": rng.choice([0.5, 2.0, 6.0]), "poll": 0.5, "max_ignored": rng.choice([0, 1, 5])}}
        if rng.random() < 0.15:
            # one daemon function stacked twice under one id with different filters
            common = {kk: vv for kk, vv in opts.items() if kk != "labels"}
            first, second = rng.sample(["l", "m"], 2)
            hd["stack"] = [{**common, "labels": {first: "1"}}, {**common, "labels": {second: "1"}}]
        handlers.append(hd)
    if rng.random() < 0.2:
        opts = {"interval": rng.choice([1.0, 3.0])}
        if rng.random() < 0.5:
            opts["labels"] = {rng.choice(["l", "m"]): "1"}
        hd = {"kind": "timer", "id": "tm", "opts": opts, "script": [], "default": "ok"}
        if rng.random() < 0.4:
            hd["default"] = ["sleep", rng.choice([0.5, 2.0, 4.0]), "ok"]     # an invocation can be under way when the object is deleted
        if rng.random() < 0.15:
            common = {kk: vv for kk, vv in opts.items() if kk != "labels"}
            first, second = rng.sample(["l", "m"], 2)
            hd["stack"] = [{**common, "labels": {first: "1"}}, {**common, "labels": {second: "1"}}]
        handlers.append(hd)
    if rng.random() < 0.4 or not handlers:
        kind = rng.choice(["create", "update", "resume"])
        handlers.append({"kind": kind, "id": kind[0] + "x", "opts": {}, "script": [rng.choice(["ok", ["temp", 1.0], "perm"])], "default": "ok"})
    if rng.random() < 0.15:
        handlers.append({"kind": "event", "id": "ev", "script": [], "default": ["ok", {"k": 1}]})
    elif rng.random() < 0.06:
        # a handler-supplied, state-checking transformation fn that has nothing to change (docs/patches.rst)
        handlers.append({"kind": "event", "id": "ev", "script": [], "default": ["fn", "noop", "ok"]})
    labels = {"l": rng.choice(["0", "1", "1"]), "m": rng.choice(["0", "1"])}
    body: dict[str, Any] = {"spec": {"x": 0}, "metadata": {"labels": dict(labels)}}
    foreign_pool = ["other.io/a", "other.io/b", "x"]
    settings: dict[str, Any] = {"execution.default_backoff": rng.choice([1.0, 2.0]), "background.cancellation_polling": rng.choice([0.5, 1.0, 2.0])}
    if rng.random() < 0.2:
        # a configured finalizer name; kopf's default name is then just somebody else's finalizer
        settings["persistence.finalizer"] = rng.choice(CUSTOM_OWNS)
        foreign_pool = ["other.io/a", DEFAULT_OWN, "x"]
    if rng.random() < 0.3:
        body["metadata"]["finalizers"] = rng.sample(foreign_pool, rng.choice([1, 2]))
    t = 1.0
    timeline: list[list] = [[t, "create", "a", body]]
    deleted = False
    foreign_last: list[str] = list(body["metadata"].get("finalizers", []))

    def foreign_op() -> list:
        nonlocal foreign_last
        kind = rng.choice(["label", "label", "label", "spec", "fins", "fins", "strip"])
        if kind == "label":
            k = rng.choice(["l", "l", "m"])
            labels[k] = "0" if labels[k] == "1" else "1"
            return ["edit", "a", {"metadata": {"labels": {k: labels[k]}}}]
        if kind == "spec":
            return ["edit", "a", {"spec": {"x": rng.randrange(1, 100)}}]
        if kind == "fins":
            new = rng.sample(foreign_pool, rng.choice([0, 1, 2, 3]))
            foreign_last = new
            return ["fins", "a", new, rng.randrange(0, len(new) + 1)] if new and rng.random() < 0.6 else ["fins", "a", new]
        return ["strip_own_finalizer", "a"]

    for _ in range(rng.choice([1, 2, 3, 4, 5])):
        t += rng.choice([0.25, 0.5, 1.0, 2.5, 4.0, 7.0])
        if not deleted and rng.random() < 0.35:
            timeline.append([t, "delete", "a"])
            deleted = True
        else:
            timeline.append([t, *foreign_op()])
    if deleted and foreign_last and rng.random() < 0.8:
        t += rng.choice([1.0, 4.0, 9.0])
        timeline.append([t, "fins", "a", []])
    sc: dict[str, Any] = {"seed": seed, "handlers": handlers, "timeline": timeline, "settings": settings}
    if rng.random() < 0.15:
        sc["status_subresource"] = True     # the status part of a patch is a request of its own, before the JSON patch
    if rng.random() < 0.35:
        op = foreign_op() if rng.random() < 0.85 else ["delete", "a"]
        slip: dict[str, Any] = {"nth": rng.randrange(1, 9), "op": op}
        c = rng.choice(["json-patch", "json-patch", "merge-patch", None])
        if c:
            slip["ctype"] = c
        sc["slips"] = [slip]
    if rng.random() < 0.15:
        sc["faults"] = [{"match": {"method": "PATCH", "ctype": "json-patch", "nth": rng.randrange(1, 5), "path_contains": "kopfexamples/"},
                         "fault": ["status", 422]}]
    elif rng.random() < 0.07:
        # an API outage: the next 1-5 PATCH attempts after some moment are answered 5xx (api.request retries 3 times)
        sc["faults"] = [{"match": {"method": "PATCH", "after": rng.randrange(64, int((t + 2.0) * 64)) / 64.0, "path_contains": "kopfexamples/"},
                         "fault": ["status", rng.choice([500, 503])], "times": rng.choice([1, 2, 3, 4, 5])}]
    end = t + 40.0
    for _ in range(rng.choice([0, 0, 0, 1, 1, 2])):
        ts = rng.randrange(32, int((t + 6.0) * 64)) / 64.0
        timeline.append([ts, rng.choice(["stop", "kill"])])
        timeline.append([ts + rng.choice([0.5, 2.0, 5.0]), "start"])
    if any((h.get("opts") or {}).get("cancellation_polling", 0) > 600 for h in handlers) and not any(h["kind"] == "timer" for h in handlers):
        end = t + 1500.0      # long enough for a capped sleep (600 s), the touch after it and the release
    if rng.random() < 0.1:
        # lost echoes: watch events arrive late, and the stream is cut (with a compaction: kopf re-lists) at some moment —
        # a version the worker awaits may never arrive (the early exit of the consistency gate must come back: /repo 30557a0)
        sc["echo_delay"] = {"default": rng.choice([0.25, 0.5])}
        settings["watching.reconnect_backoff"] = 0.125     # (kopf's default 0.1 s is not a dyadic time: harness/sim needs 1/64 s)
        for _ in range(rng.choice([1, 1, 2])):
            base = rng.choice([e[0] for e in timeline if e[1] not in ("stop", "kill", "start")])
            timeline.append([base + rng.choice([0.0, 0.0, 0.25, 0.5, 0.75]), "cut", *rng.choice([["410"], ["410"], []])])
    sc["end"] = end
    return sc


def gen_rematch(rng: Any, seed: int) -> dict:
    """Re-match histories: a daemon/timer is told to stop NOT by a deletion (its label filter stops matching), takes its time
    (longer or shorter than its cancellation timeout: given up on while alive, or not), the object matches again while the
    previous invocation is still there or after it has gone, the previous invocation ends at some moment before/after that,
    possibly more edits and toggles follow, and then the object is deleted (or an operator restart comes in between)."""
    lab = rng.choice(["l", "m"])
    handlers: list[dict] = []
    after = rng.choice([0.5, 1.5, 3.0, 6.0, 12.0])
    if rng.random() < 0.85:
        mode = rng.choice(["drag", "drag", "drag", "linger", "ignore", "cancel", "obey"])
        opts: dict[str, Any] = {"labels": {lab: "1"}}
        if mode in ("drag", "ignore", "cancel") or rng.random() < 0.5:
            if rng.random() < 0.85:
                opts["cancellation_timeout"] = rng.choice([0, 0.5, 1.0, 1.0, 2.0, 4.0])
            if rng.random() < 0.3:
                opts["cancellation_backoff"] = rng.choice([0.5, 1.0])
        if rng.random() < 0.6:
            opts["cancellation_polling"] = rng.choice([0.25, 0.5, 1.0])
        hd: dict[str, Any] = {"kind": "daemon", "id": "dm", "opts": opts,
                              "daemon": {"mode": mode, "after": after, "poll": 0.5, "max_ignored": rng.choice([1, 3, 5])}}
        if rng.random() < 0.12:
            common = {kk: vv for kk, vv in opts.items() if kk != "labels"}
            hd["stack"] = [{**common, "labels": {"l": "1"}}, {**common, "labels": {"m": "1"}}]
        handlers.append(hd)
    else:
        handlers.append({"kind": "timer", "id": "tm", "opts": {"interval": rng.choice([1.0, 3.0]), "labels": {lab: "1"}}, "script": [],
                         "default": ["sleep", rng.choice([2.0, 4.0, 8.0]), "ok"]})
    if rng.random() < 0.3:
        handlers.append({"kind": "delete", "id": "d0", "opts": ({"optional": True} if rng.random() < 0.4 else {}), "script": [], "default": "ok"})
    if rng.random() < 0.3:
        handlers.append({"kind": "update", "id": "ux", "opts": {}, "script": [], "default": "ok"})
    other = "m" if lab == "l" else "l"
    labels = {lab: "1", other: rng.choice(["0", "0", "1"]) if "stack" not in handlers[0] else "0"}
    body: dict[str, Any] = {"spec": {"x": 0}, "metadata": {"labels": dict(labels)}}
    if rng.random() < 0.2:
        body["metadata"]["finalizers"] = ["other.io/a"]
    settings: dict[str, Any] = {"execution.default_backoff": 1.0, "background.cancellation_polling": rng.choice([0.5, 1.0])}
    if rng.random() < 0.15:
        settings["persistence.finalizer"] = rng.choice(CUSTOM_OWNS)
    t = 1.0
    timeline: list[list] = [[t, "create", "a", body]]
    gaps = [0.25, 0.5, 1.0, 1.5, 2.5, 4.0, 7.0, 13.0]
    for _ in range(rng.choice([1, 1, 1, 2, 2, 3])):
        t += rng.choice(gaps)
        timeline.append([t, "edit", "a", {"metadata": {"labels": {lab: "0"}}}])        # told to stop: the filter mismatches
        for _ in range(rng.choice([0, 0, 1, 2])):
            t += rng.choice(gaps[:6])
            timeline.append([t, "edit", "a", {"spec": {"x": rng.randrange(1, 100)}}])   # more visits while it is being stopped
        t += rng.choice(gaps)
        timeline.append([t, "edit", "a", {"metadata": {"labels": {lab: "1"}}}])        # matches again
        for _ in range(rng.choice([0, 0, 1, 1, 2])):
            t += rng.choice(gaps)
            timeline.append([t, "edit", "a", {"spec": {"x": rng.randrange(1, 100)}}])   # life goes on
    r = rng.random()
    if r < 0.15:
        ts = t + rng.choice(gaps)
        timeline.append([ts, rng.choice(["stop", "kill"])])
        t = ts + rng.choice([0.5, 2.0, 5.0])
        timeline.append([t, "start"])
    if r < 0.9:
        t += rng.choice(gaps)
        timeline.append([t, "delete", "a"])
        if body["metadata"].get("finalizers"):
            t += rng.choice([1.0, 4.0])
            timeline.append([t, "fins", "a", []])
    sc: dict[str, Any] = {"seed": seed, "handlers": handlers, "timeline": timeline, "settings": settings, "end": t + 40.0, "family": "rematch"}
    if rng.random() < 0.1:
        sc["status_subresource"] = True
    return sc


# ---- reading a trace ------------------------------------------------------------------------------
OWN_FNS = ("block_deletion", "allow_deletion")


def _own_fns(names: list) -> list:
    """The framework's own finalizer edits among the patch's transformation fns (handlers may add theirs)."""
    return [n for n in names if n in OWN_FNS]


def _regs(h: dict) -> list[dict]:
    """The registrations of a handler declaration: one, or several for a stacked function (same fn, same id)."""
    return [dict(o) for o in h["stack"]] if "stack" in h else [h.get("opts") or {}]


def _match_opts(opts: dict, labels: dict) -> bool:
    return all(labels.get(k) == v for k, v in (opts.get("labels") or {}).items())


def _match(h: dict, labels: dict) -> bool:
    """Some registration of the handler matches an object with these labels."""
    return any(_match_opts(o, labels) for o in _regs(h))


def _mandatory(h: dict, labels: dict) -> bool:
    """A deletion handler with a MANDATORY registration that matches an object with these labels."""
    return h["kind"] == "delete" and any(not o.get("optional") and _match_opts(o, labels) for o in _regs(h))


def _meta(body: dict) -> dict:
    return body.get("metadata") or {}


def _fins(body: dict) -> list[str]:
    return list(_meta(body).get("finalizers") or [])


def _labels(body: dict) -> dict:
    return dict(_meta(body).get("labels") or {})


class View:
    """Implementation-level observations of one run, indexed for the oracle."""

    def __init__(self, sc: dict, tr: dict):
        self.sc, self.tr = sc, tr
        self.handlers = sc.get("handlers", [])
        self.hist = [v for k, vs in tr["history"].items() if k.startswith("kopfexamples/") for v in vs]
        self.reqs = [r for r in tr["requests"] if r["method"] == "PATCH" and "/kopfexamples/" in r["path"]]
        self.op_writes: dict[tuple, dict] = {}      # (rv, t) of versions stored by an operator request
        self.op_deletes: dict[tuple, dict] = {}     # (uid, t) of deletions caused by an operator request
        for r in self.reqs:
            res = r.get("result")
            if r.get("response") != 200 or not isinstance(res, dict):
                continue
            m = _meta(res)
            if m.get("deletionTimestamp") and not m.get("finalizers"):
                self.op_deletes[(m.get("uid"), r["t"] + LAT)] = r
            else:
                self.op_writes[(m.get("resourceVersion"), r["t"] + LAT)] = r
        self.ends: dict[int, float] = {}             # incarnation → time it stopped/was killed
        for m in tr["marks"]:
            if m["what"] in ("stopped", "killed"):
                self.ends[m["inc"]] = m["t"]

    def writer(self, v: dict, prev: dict | None = None) -> dict | None:
        """The operator request that stored this version, if any. A request that changed nothing is answered with the
        current object — possibly a version somebody else stored at the same instant: given the previous version, a
        request counts as the writer only if its payload explains what happened to the finalizers, labels and mark."""
        m = _meta(v["body"])
        if v["event"] == "DELETED":
            return self.op_deletes.get((m.get("uid"), v["t"]))
        r = self.op_writes.get((m.get("resourceVersion"), v["t"]))
        if r is not None and prev is not None and prev["event"] != "DELETED":
            try:
                pl = r.get("payload")
                if isinstance(pl, list):
                    after = rfc.apply_json_patch(copy.deepcopy(prev["body"]), [o for o in pl if not (isinstance(o, dict) and o.get("op") == "test")])
                else:
                    after = rfc.merge_patch(copy.deepcopy(prev["body"]), pl or {})
            except Exception:  # noqa: BLE001
                return None
            if (_fins(after), _labels(after), bool(_meta(after).get("deletionTimestamp"))) != \
                    (_fins(v["body"]), _labels(v["body"]), bool(m.get("deletionTimestamp"))):
                return None
        return r

    def versions(self, uid: str) -> list[dict]:
        return [v for v in self.hist if _meta(v["body"]).get("uid") == uid]

    def uids(self) -> list[str]:
        return list(dict.fromkeys(_meta(v["body"]).get("uid") for v in self.hist))

    # -- the handler/daemon log ---------------------------------------------------------------------
    def finished(self, h: dict, uid: str, T: float, upto: int | None = None) -> bool:
        """Has the deletion handler finished, as of instant T? Read off the latest handling pass before T (what kopf
        stored in / purged from the progress records and what the handler returned in that pass): a handler whose
        finished record was purged and which is invoked again without finishing is UNFINISHED again; so is one whose
        record was purged while it did not match. A pass in which it finishes counts at once."""
        hid = h["id"]
        latest = None
        for c in self.tr["cycles"]:
            p = c.get("pcc")
            ap = c.get("apply")
            if c.get("uid") != uid or not p or not ap or ap["t"] > T or not isinstance(p.get("P_after"), dict) or "error" in p["P_after"]:
                continue
            if upto is not None and c["i"] > upto:
                continue   # a pass of a later cycle (it may start at the same virtual instant as the write judged)
            latest = p
        if latest is None:
            return False
        done = lambda r: bool(r and (r.get("success") or r.get("failure")))   # noqa: E731
        out = (latest.get("outcomes") or {}).get(hid)
        if out is not None:
            return bool(out["final"])
        if hid in latest.get("selected", []):
            return done(latest["P"].get(hid))
        return done(latest["P_after"].get(hid))

    def live_calls(self, h: dict, uid: str, T: float) -> list[dict]:
        out = []
        for c in self.tr["calls"]:
            if c["id"] != h["id"] or c.get("uid") != uid or c["t"] > T:
                continue
            if c.get("t_end") is not None and c["t_end"] <= T:
                continue
            if self.ends.get(c["inc"], float("inf")) <= T:
                continue      # its operator process is gone
            out.append(c)
        return out

    def required_at(self, uid: str, labels: dict, T: float, upto: int | None = None, marked_now: bool = True) -> list[str]:
        """Who requires the finalizer at instant T on an object with these labels (from the statement)."""
        why = []
        for h in self.handlers:
            if not _match(h, labels):
                continue
            if _mandatory(h, labels):
                if not self.finished(h, uid, T, upto):
                    why.append(f"mandatory deletion handler {h['id']} has not finished")
            elif h["kind"] in SPAWNING_KINDS:
                for c in self.live_calls(h, uid, T):
                    o = h.get("opts") or {}
                    to = o.get("cancellation_timeout")
                    # abandoned after its timeouts: the stopping began no earlier than the first version in the daemon's
                    # life that is marked or that its filters do not match (kopf counts from its own first stop call)
                    stops = [v["t"] for v in self.versions(uid) if v["t"] >= c["t"] and v["event"] != "DELETED" and
                             (_meta(v["body"]).get("deletionTimestamp") or not _match(h, _labels(v["body"])))]
                    since = min(stops) if stops else None
                    if c.get("flag_watch"):
                        # observed from outside the function (sim_c06): the instant THIS invocation was told to stop. One that
                        # was never told to stop has not been "abandoned after its timeouts", whatever the object went through
                        # (and whatever happened to earlier invocations under the same id); the timeouts run from that instant.
                        ft = c.get("flag_t")
                        since = None if ft is None or ft > T else (ft if since is None else max(since, ft))
                    if h["kind"] == "daemon" and to is not None and since is not None and T >= since + (o.get("cancellation_backoff") or 0) + to:
                        continue
                    why.append(f"{h['kind']} {h['id']} (started {c['t']}) is alive")
                # a timer's task lives between its invocations too: while the object is not marked and matches it,
                # nothing ever stops it (it never exits on its own accord) once this process has seen the object
                if h["kind"] == "timer" and not marked_now and not any("timer" in w and h["id"] in w for w in why):
                    seen = any(c2.get("uid") == uid and c2["t0"] <= T and self.ends.get(c2["inc"], float("inf")) > T
                               and (upto is None or c2["i"] < upto) for c2 in self.tr["cycles"])
                    if seen:
                        why.append(f"timer {h['id']} matches the unmarked object: its task is alive between invocations")
        return why


def _carried(cyc: dict) -> int:
    """How many transformation fns the cycle's patch started with (the fns left in `memory.remaining_patch` by the
    previous cycle): observed at the entry of `process_resource_causes` (sim_c06) — `patch_initially_empty` is read
    there —, else read off the memory snapshot."""
    raw = (((cyc.get("mem_before") or {}).get("remaining_patch") or {}).get("fns") or 0)
    return int(cyc["fns_at_entry"]) if "fns_at_entry" in cyc else raw


def _cycle_requests(view: View, cyc: dict) -> list[dict]:
    who = f"op#{cyc['inc']}"
    t1 = cyc.get("t1", float("inf"))
    name = cyc.get("name") or "a"
    return [r for r in view.reqs if r["who"] == who and cyc["t0"] <= r["wall"] < t1
            and (r["path"].endswith("/" + name) or r["path"].endswith("/" + name + "/status"))]


def _main_requests(view: View, cyc: dict) -> tuple[dict | None, dict | None]:
    """(merge-patch request, JSON-patch request) of the cycle's main `patch_obj` call: the merge patch (if the patch
    has dict content) leaves at the instant `apply` is entered, the JSON patch right after its response."""
    merges, js = _main_chain(view, cyc)
    return (merges[-1] if merges else None), js


def _main_chain(view: View, cyc: dict) -> tuple[list[dict], dict | None]:
    """The requests of the cycle's main `patch_obj` call, one per latency step from the instant `apply` is entered:
    the merge patch of the body, the merge patch of the status (only with a status subresource, where the `status`
    part goes there) — the response of the LAST of them is the `fresh_body` —, then the JSON patch of the body."""
    ap = cyc.get("apply")
    if not ap:
        return [], None
    rs = _cycle_requests(view, cyc)
    merges: list[dict] = []
    t = ap["t"]
    for sub in (False, True):
        r = next((r for r in rs if "merge-patch" in (r.get("ctype") or "") and r["wall"] == t
                  and r["path"].endswith("/status") == sub), None)
        if r is not None and not merges and _touch_only(r) and not ap.get("patch"):
            # not the cycle's patch (it has no dict content; the removal of a touch-dummy would carry a null) but the TOUCH of
            # a cycle that returned a zero delay and whose patch sent nothing: it leaves at the very instant `apply` is entered
            r = None
        if r is not None:
            merges.append(r)
            t += LAT
            if r.get("response") != 200:
                return merges, None
    js = next((r for r in rs if "json-patch" in (r.get("ctype") or "") and r["wall"] == t and not r["path"].endswith("/status")), None)
    return merges, js


def _touch_only(req: dict) -> bool:
    p = req.get("payload") or {}
    ann = ((p.get("metadata") or {}).get("annotations") or {}) if isinstance(p, dict) else {}
    return isinstance(p, dict) and set(p) == {"metadata"} and set(p["metadata"]) == {"annotations"} and bool(ann) \
        and all(k.endswith("touch-dummy") and v is not None for k, v in ann.items())


def _changed(cyc: dict, ab: dict) -> bool:
    """Did the cycle's patch change the object, as far as the operator can tell? The last 200 response carries a
    version other than the one the cycle worked on (or releases the object); or no version came back but the JSON
    patch was rejected (HTTP 422: a newer change exists). A patch that sent no request at all did not."""
    merge, js = ab["merge"], ab["json"]
    if merge is None and js is None:
        return False
    if merge is not None and merge.get("response") != 200:
        return False             # 404: patch_obj gives up, neither a version nor a remaining patch
    body = merge["result"] if merge is not None and isinstance(merge.get("result"), dict) else None
    if js is not None:
        if js.get("response") == 200 and isinstance(js.get("result"), dict):
            body = js["result"]
        elif js.get("response") == 422 and body is None:
            return True          # unknown outcome
        elif js.get("response") not in (200, 422):
            return False
    if body is None:
        return False
    m = _meta(body)
    if m.get("deletionTimestamp") and not m.get("finalizers"):
        return True
    return m.get("resourceVersion") != cyc.get("rv")


def _slept(view: View, cyc: dict, ab: dict) -> bool | None:
    """Did `application.apply` sleep (and/or touch) after its patching? None = not observable (cut short, or the
    sleep was interrupted at once by an event that was already queued)."""
    ap = cyc["apply"]
    if "t_end" not in ap or cyc.get("error"):
        return None
    t1 = cyc.get("t1", float("inf"))
    inc_end = view.ends.get(cyc["inc"], float("inf"))
    inc_start = max([m["t"] for m in view.tr["marks"] if m["what"] == "start" and m.get("inc") == cyc["inc"]] or [0.0])
    stop_reqs = [e[0] for e in view.sc.get("timeline", []) if e[1] in ("stop", "kill") and inc_start - 1e-9 <= e[0] <= inc_end + 1e-9]
    if (stop_reqs and min(stop_reqs) <= t1 + 1e-9) or inc_end <= t1 + 1e-9:
        return None   # the operator was being stopped (a graceful stop takes time) before the cycle was over
    n_main = len(_main_chain(view, cyc)[0]) + (1 if ab["json"] is not None else 0)
    rs = [r for r in _cycle_requests(view, cyc) if r["wall"] >= ap["t"] + n_main * LAT and "merge-patch" in (r.get("ctype") or "")]
    touched = any(_touch_only(r) for r in rs)
    extra = (ap["t_end"] - ap["t"]) - n_main * LAT
    if touched or extra > 1e-9:
        return True
    nxt = next((c for c in view.tr["cycles"] if c["i"] > cyc["i"] and c.get("uid") == cyc.get("uid") and c["inc"] == cyc["inc"]), None)
    if nxt is not None and nxt["t0"] <= cyc.get("t1", float("inf")) + 1e-9:
        return None
    return False


def abstract_cycle(view: View, cyc: dict) -> dict | None:
    """Inputs of the decision block as seen by this cycle + what the implementation did."""
    ap = cyc.get("apply")
    if ap is None or cyc.get("event_type") == "DELETED" or "remaining_fns" not in ap:
        return None
    if (cyc.get("mem_before") or {}).get("throttled"):
        return None     # it first sits out the error throttler's pause: the memory it decides on is newer than the snapshot
    body = cyc["body"]
    labels, fins = _labels(body), _fins(body)
    mb = cyc.get("mem_before") or {}
    forever = set(mb.get("forever_stopped") or [])
    hs = view.handlers
    spawn_hs = [h for h in hs if h["kind"] in SPAWNING_KINDS]
    chg_hs = [h for h in hs if h["kind"] in CHANGING_KINDS]
    pcc = cyc.get("pcc")
    carried_raw = ((mb.get("remaining_patch") or {}).get("fns") or 0)
    carried = _carried(cyc)
    n_chg_delays = len(pcc.get("delays", [])) if pcc else 0
    inp = {
        "spawning": bool(spawn_hs),
        "spawnReq": any(_match(h, labels) and h["id"] not in forever for h in spawn_hs),
        "changing": any(_match(h, labels) for h in chg_hs),
        "changeReq": any(_mandatory(h, labels) for h in chg_hs),
        "isBlocked": OWN in fins,
        "isOngoing": bool(_meta(body).get("deletionTimestamp")),
        "deletedEvent": False,
        "consistent": pcc is not None,
        "spawnDelays": bool(cyc.get("spawning_delays")),      # what process_spawning_cause returned (observed)
        "changeDelays": n_chg_delays > 0,
        "deadline": cyc.get("consistency_time") is not None,  # the worker still awaits the version of its own last patch
        "paused": False,                                      # the simulated operators have no peering: never paused
        "carried": carried > 0,                               # not patch_initially_empty: the patch started with carried fns
    }
    merge, js = _main_requests(view, cyc)
    fresh = fins
    if merge is not None:
        if merge.get("response") != 200 or not isinstance(merge.get("result"), dict):
            fresh = None   # 404 & co.: patch_obj gives up
        else:
            fresh = _fins(merge["result"])
    ma = cyc.get("mem_after") or {}
    return {"in": inp, "carried": len(_own_fns(ap["fns"][:carried])), "carried_raw": carried_raw, "forgotten": carried_raw - carried,
            "fns": _own_fns(ap["fns"]), "new": _own_fns(ap["fns"][carried:]),
            "user_fns": len(ap["fns"]) != len(_own_fns(ap["fns"])), "ran": pcc is not None,
            "fresh": fresh, "merge": merge, "json": js, "marked": inp["isOngoing"],
            "carried_after": ((ma.get("remaining_patch") or {}).get("fns") or 0) if cyc.get("mem_after") is not None else None}


# ---- (A) trace acceptance: the labels of a run, replayed through `lstep` -----------------------------------
def trace_items(view: View) -> tuple[dict, list, dict] | None:
    """One label per real step of the object's life (foreign write / mark / finalizer edit / cycle start on ITS
    event body / merge-patch response / JSON-patch outcome / touch / restart), each with the snapshot of the
    abstract state the real server and operator are in right after it. None if the model's aggregation is not
    exact for this scenario (more than one mandatory deletion handler or more than one daemon/timer)."""
    sc, tr = view.sc, view.tr
    dels = [h for h in view.handlers if h["kind"] == "delete" and any(not o.get("optional") for o in _regs(h))]
    spawns = [h for h in view.handlers if h["kind"] in SPAWNING_KINDS]
    if len(dels) > 1 or len(spawns) > 1 or any(o.get("optional") for h in dels for o in _regs(h)) or sc.get("status_subresource"):
        return None
    hdel = dels[0] if dels else None
    hsp = spawns[0] if spawns else None
    uids = view.uids()
    if len(uids) != 1:
        return None
    uid = uids[0]
    vs = view.versions(uid)
    idx = {(_meta(v["body"]).get("resourceVersion")): i for i, v in enumerate(vs) if v["event"] != "DELETED"}

    def mdel(labels: dict) -> bool:
        return bool(hdel and _mandatory(hdel, labels))

    def mdmn(labels: dict) -> bool:
        return bool(hsp and _match(hsp, labels))

    def server(i: int) -> dict:
        b = vs[i]["body"]
        if vs[i]["event"] == "DELETED":
            return {"gone": True}
        return {"gone": False, "marked": bool(_meta(b).get("deletionTimestamp")), "fins": _fins(b), "rv": i,
                "matchDel": mdel(_labels(b)), "matchDmn": mdmn(_labels(b))}

    def jkey(tj: float, t: float, merge_idx: int | None, seq: int) -> tuple:
        """Where the end of a cycle's JSON-patch step sorts: right after the cycle's own merge write if that happened at
        the same instant; else before foreign writes of the same instant (a slip is placed at the NEXT request)."""
        if merge_idx is not None:
            return (tj, 0, merge_idx + 0.5)
        return (tj, -1 if tj > t else 1, seq)

    writers = {i: view.writer(vs[i], vs[i - 1]) for i in range(1, len(vs))}
    items: list[tuple] = []      # (t, rank, seq, label, expectation-or-None, kind)
    note: dict[str, Any] = {"truncated": None}
    req_label: dict[int, tuple] = {}     # id(request) -> (label, cycle) for the operator's writing requests
    # ---- cycles
    incs = {m["inc"]: m["t"] for m in tr["marks"] if m["what"] == "start"}
    for cyc in tr["cycles"]:
        if cyc.get("uid") != uid:
            continue
        ap = cyc.get("apply")
        if cyc.get("event_type") == "DELETED":
            continue
        if not ap:
            note.setdefault("cut_cycles", 0)
            note["cut_cycles"] += 1
            continue
        vi = idx.get(cyc.get("rv"))
        if vi is None:
            return None
        body = cyc["body"]
        labels = _labels(body)
        mb = cyc.get("mem_before") or {}
        running = set(mb.get("running_daemons") or [])
        forever = set(mb.get("forever_stopped") or [])
        pcc = cyc.get("pcc")
        n_sp = len(cyc.get("spawning_delays") or [])
        marked_v = bool(_meta(body).get("deletionTimestamp"))
        live = bool(hsp and hsp["id"] in running)
        if live and (marked_v or not mdmn(labels)) and n_sp <= 0:
            live = False       # exited within the stop call, or abandoned after its timeouts: no delay is reported any more
        seq = cyc["i"] * 10
        t = ap["t"]
        if hsp and not marked_v and mdmn(labels) and hsp["id"] not in forever and n_sp > 0:
            # the id is held by an instance that was asked to stop (filter mismatch) while the object matches again: it is
            # escorted to its end and the cycles come back (polling) to start a new one — /repo ef26531, C09's subject; the
            # LTS knows a daemon's stopping only on objects it does not match or that are marked
            note["truncated"] = note["truncated"] or "a stopping daemon instance holds the id while the object matches again (C09)"
            items.append((t, 1, seq, None, None, "stop"))
            continue
        if hsp:
            items.append((t, 1, seq, ["syncDaemon", live, bool(hsp["id"] in forever)], None, "sync"))
        done_after = bool(hdel and view.finished(hdel, uid, t, upto=cyc["i"]))
        if hdel:
            items.append((t, 1, seq + 1, ["syncDone", done_after], None, "sync"))
        merge, js = _main_requests(view, cyc)
        if merge is not None and _touch_only(merge) and not ap["patch"]:
            merge = None
        carried = _carried(cyc)
        new = _own_fns(ap["fns"][carried:])
        chg_hs = [h for h in view.handlers if h["kind"] in CHANGING_KINDS]
        changing = any(_match(h, labels) for h in chg_hs)
        early = bool(cyc.get("cause") is not None and changing and pcc is None and not new)
        # (a merge patch that changes nothing is answered with the current version — possibly one a foreign actor
        # stored at that very instant: `writer` tells them apart)
        mchg = bool(merge is not None and merge.get("response") == 200 and isinstance(merge.get("result"), dict)
                    and any(w_ is merge for w_ in writers.values()))
        env = {"consistent": not early, "merge": merge is not None,
               "otherChanging": any(_match(h, labels) for h in chg_hs if h is not hdel),
               "otherDelays": bool(pcc and pcc.get("delays")), "mergeChanges": mchg,
               "userFns": len(ap["fns"]) != len(_own_fns(ap["fns"])),
               "carried": carried > 0,
               "waiting": cyc.get("consistency_time") is not None,
               "delReset": bool(pcc is not None and not done_after)}
        snap = {"rv": vi, "marked": marked_v, "fins": _fins(body), "matchDel": mdel(labels), "matchDmn": mdmn(labels)}
        exp: dict[str, Any] = {"pending": {"fns": _own_fns(ap["fns"]), "merge": merge is not None, "view": _fins(body),
                                           "fresh": None}, "cycDelays": bool(ap.get("delays"))}
        if hdel:
            exp["delDone"] = done_after
        items.append((t, 1, seq + 2, ["decide", env, snap], exp, "decide"))
        if "remaining_fns" not in ap:
            note.setdefault("cut_cycles", 0)
            note["cut_cycles"] += 1     # killed inside apply: what was sent is replayed below, a restart follows
            if view.ends.get(cyc["inc"], float("inf")) > cyc.get("t1", float("inf")):
                # … or the process lived on: `apply` raised (an API error past the request retries, swallowed by
                # `throttled()`): the LTS has no label for a cycle that dies in its patching (finding F10)
                note["truncated"] = note["truncated"] or "a cycle failed in its patching (API error)"
                items.append((t, 1, seq + 3, None, None, "stop"))
                continue
        tj = t
        merge_idx = None
        merge_after = None      # the (unchanging) merge response was placed right after this foreign version of its instant
        if merge is not None:
            tj = merge["wall"] + LAT
            if merge.get("response") != 200:
                note["truncated"] = note["truncated"] or f"merge patch answered {merge.get('response')}"
                items.append((tj, 1, seq + 3, None, None, "stop"))
                continue
            if mchg:
                req_label[id(merge)] = (["merge"], cyc)
                merge_idx = next(i for i, w_ in writers.items() if w_ is merge)
            else:
                # its response precedes a slip at the same instant (a slip is placed at the NEXT request) — but it follows a
                # foreign write of that instant whose version it reports
                ridx = idx.get(_meta(merge["result"]).get("resourceVersion")) if isinstance(merge.get("result"), dict) else None
                if ridx is not None and ridx > 0 and vs[ridx]["t"] == tj and writers.get(ridx) is None:
                    items.append((tj, 0, ridx + 0.25, ["merge"], {}, "merge"))
                    merge_after = ridx
                else:
                    items.append((tj, -1 if tj > t else 1, seq + 3, ["merge"], {}, "merge"))
        if "remaining_fns" not in ap and js is None:
            continue
        if js is not None:
            tj = js["wall"] + LAT
            forced = bool(js.get("fault"))
            if js.get("response") == 200:
                req_label[id(js)] = (["json", False], cyc)
            elif js.get("response") == 422:
                key = jkey(tj, t, merge_idx, seq + 4)
                if not forced:
                    # a genuine rejection: a version newer than the tested one existed when the request was served; if that
                    # is a foreign write of the very instant of the response, the response comes after it
                    tested = next((o.get("value") for o in (js.get("payload") or []) if isinstance(o, dict) and o.get("op") == "test"), None)
                    ti = idx.get(tested)
                    newer = [i for i in range((ti if ti is not None else -1) + 1, len(vs)) if vs[i]["t"] <= tj]
                    if newer and vs[newer[0]]["t"] == tj:
                        key = (tj, 0, newer[0] + 0.5)
                items.append((*key, ["json", forced], {"pending": None, "mem": []}, "json"))
            else:
                note["truncated"] = note["truncated"] or f"JSON patch answered {js.get('response')}"
                items.append((tj, 1, seq + 4, None, None, "stop"))
                continue
        else:
            expj: dict[str, Any] = {"pending": None, "mem": []}
            if ap.get("delays") and "remaining_fns" in ap:
                sl = _slept(view, cyc, {"merge": merge, "json": js})
                if sl is not None:
                    expj["sleeping"] = sl     # application.apply: sleep-then-touch iff the patch was empty or changed nothing
            key = (tj, 0, merge_after + 0.3) if merge_after is not None else jkey(tj, t, merge_idx, seq + 4)
            items.append((*key, ["json", False], expj, "json"))
        for r in _cycle_requests(view, cyc):
            if r is not merge and r is not js and _touch_only(r) and r.get("response") == 200:
                req_label[id(r)] = (["touch"], cyc)
    # ---- restarts
    starts = sorted(m["t"] for m in tr["marks"] if m["what"] == "start")
    for t in starts[1:]:
        items.append((t, 2, 0, ["restart"], {"pending": None, "mem": []}, "restart"))
    # ---- stored versions, in order
    for i in range(1, len(vs)):
        prev, cur = vs[i - 1], vs[i]
        w = writers[i]
        exp = server(i)
        if w is not None:
            lab = req_label.get(id(w))
            if lab is None:
                lab = (["write", exp.get("matchDel", False), exp.get("matchDmn", False)], None)   # a daemon's/timer's own patch
                if cur["event"] == "DELETED":
                    return None
            items.append((cur["t"], 0, i, lab[0], exp, "own-write"))
            continue
        pb, cb = prev["body"], cur["body"]
        if cur["event"] == "DELETED":
            lab2 = ["editFins", []] if _meta(pb).get("deletionTimestamp") else ["mark"]
            if OWN in _fins(pb):
                note["truncated"] = note["truncated"] or "foreign force-delete of an object holding the own finalizer"
                items.append((cur["t"], 0, i, None, None, "stop"))
                continue
        elif _meta(cb).get("deletionTimestamp") and not _meta(pb).get("deletionTimestamp"):
            lab2 = ["mark"]
        elif _fins(cb) != _fins(pb):
            if (OWN in _fins(cb)) != (OWN in _fins(pb)):
                note["truncated"] = note["truncated"] or "a foreign actor stripped the own finalizer"
                items.append((cur["t"], 0, i, None, None, "stop"))
                continue
            lab2 = ["editFins", _fins(cb)]
        else:
            lab2 = ["write", exp["matchDel"], exp["matchDmn"]]
        items.append((cur["t"], 0, i, lab2, exp, "foreign"))
    items.sort(key=lambda x: (x[0], x[1], x[2]))
    # ---- the queue the worker has in reality: one event per stored version, taken oldest first; a listing at (re)start
    out: list = []
    queue = [0]
    cur_i = 0
    for (t, rank, seq, lab, exp, kind) in items:
        if kind == "stop":
            break
        exp = dict(exp) if exp is not None else {}
        if kind in ("own-write", "foreign"):
            cur_i = seq
            if not exp.get("gone"):
                queue = queue + [seq]
            else:
                exp = {"gone": True}
        elif kind == "decide":
            vi = lab[2]["rv"]
            if not queue or queue[0] != vi:
                note["truncated"] = note["truncated"] or f"cycle on version #{vi} while the oldest undelivered event is {queue[:1]} (events skipped or repeated)"
                break
            queue = queue[1:]
            exp["pending"]["fresh"] = (vi == cur_i)
        elif kind == "restart":
            queue = [cur_i]
        if kind != "sync" and not exp.get("gone"):
            exp["queue"] = list(queue)
        out.append([lab, exp])
        if exp.get("gone"):
            break
    b0 = vs[0]["body"]
    init = {"marked": bool(_meta(b0).get("deletionTimestamp")), "fins": _fins(b0),
            "matchDel": mdel(_labels(b0)), "matchDmn": mdmn(_labels(b0))}
    return init, out, note


# ---- the oracle -------------------------------------------------------------------------------------
def oracle(ctx: Ctx, sc: dict, tr: dict) -> dict:
    """Written from the property statement over the server-side history, the request log and the
    handler/daemon log; never consults the Lean model. Returns a few counters."""
    _use(sc)
    view = View(sc, tr)
    stats = {"removals": 0, "early": 0, "adds": 0}
    cycles_by_req: dict[int, dict] = {}
    for cyc in tr["cycles"]:
        for r in _cycle_requests(view, cyc):
            cycles_by_req.setdefault(id(r), cyc)
    for uid in view.uids():
        vs = view.versions(uid)
        for prev, cur in zip(vs, vs[1:]):
            w = view.writer(cur, prev)
            pf, cf = _fins(prev["body"]), _fins(cur["body"])
            gone = cur["event"] == "DELETED"
            # (4) foreign finalizers: an operator write never adds, drops or reorders them
            if w is not None and not gone and [x for x in cf if x != OWN] != [x for x in pf if x != OWN]:
                ctx.oracle_fail(f"an operator write changed the foreign finalizers: {pf} -> {cf}",
                                {"scenario": sc, "rv": _meta(cur['body']).get("resourceVersion"), "request": w.get("payload")},
                                {"site": "patching.patch_obj", "shape": "foreign finalizers changed by the operator"})
            # … nor takes them all off at once: an object goes away only when its finalizer list is empty, so an
            # operator write that makes the object disappear while others' finalizers were on it dropped them
            if w is not None and gone and [x for x in pf if x != OWN]:
                ctx.oracle_fail(f"an operator write removed the foreign finalizers {[x for x in pf if x != OWN]} together with its own: "
                                f"the object is gone although their owners never released it",
                                {"scenario": sc, "t": cur["t"], "finalizers_before": pf, "request": w.get("payload")},
                                {"site": "patching.patch_obj", "shape": "foreign finalizers dropped by the releasing write"})
            if w is not None and not gone and OWN in cf and cf.count(OWN) > max(1, pf.count(OWN)):
                ctx.oracle_fail("the operator duplicated its own finalizer", {"scenario": sc, "request": w.get("payload")},
                                {"site": "finalizers.block_deletion", "shape": "own finalizer duplicated"})
            # (1) the own finalizer disappears by the operator's hand
            if OWN in pf and (gone or OWN not in cf) and w is not None:
                stats["removals"] += 1
                T = cur["t"]
                labels = _labels(cur["body"])
                cyc = cycles_by_req.get(id(w))
                why = view.required_at(uid, labels, T, cyc["i"] if cyc else None,
                                       marked_now=bool(_meta(cur["body"]).get("deletionTimestamp")))
                if why:
                    stats["early"] += 1
                    sig, note = classify_early(view, cyc, w, uid, T)
                    ctx.oracle_fail(f"own finalizer removed at t={T} (object {'deleted' if gone else 'unprotected'}) although " + "; ".join(why) + note,
                                    {"scenario": sc, "t": T, "rv": _meta(cur['body']).get("resourceVersion"), "labels": labels,
                                     "required_by": why, "request": w.get("payload"), "cycle": cyc and cyc["i"]}, sig)
            if OWN not in pf and OWN in cf and w is not None:
                stats["adds"] += 1
    # (3) per cycle, on the body the cycle was given: added when required, removed when not, and only then
    for cyc in tr["cycles"]:
        check_cycle(ctx, view, sc, cyc)
    # (2) eventually released
    check_liveness(ctx, view, sc, tr)
    return stats


def classify_early(view: View, cyc: dict | None, req: dict, uid: str, T: float) -> tuple[dict, str]:
    if cyc is None or not cyc.get("apply"):
        return SIG_EARLY, ""
    ap = cyc["apply"]
    carried = _carried(cyc)
    old, new = ap["fns"][:carried], ap["fns"][carried:]
    seen_labels = _labels(cyc["body"])
    tested = next((o.get("value") for o in (req.get("payload") or []) if isinstance(o, dict) and o.get("op") == "test"), None)
    if "allow_deletion" in old and "allow_deletion" not in new:
        return SIG_F5, " [the removal was carried in memory.remaining_patch from an earlier cycle that got HTTP 422; this cycle decided no removal]"
    if "allow_deletion" in new and not view.required_at(uid, seen_labels, T, cyc["i"]) and tested is not None and tested != cyc.get("rv"):
        return SIG_F5B, (f" [the cycle decided on version {cyc.get('rv')} where nothing required it; its own merge patch re-based the "
                         f"test to version {tested}, hiding the foreign write in between]")
    return SIG_EARLY, ""


def _surely_forever(view: View, h: dict, uid: str, inc: int, T: float) -> bool:
    """The daemon ran in this process and exited on its own accord while nobody was stopping it: the object was
    unmarked and matched its filters during its whole life, and its process was up (kopf never respawns such a daemon)."""
    for c in view.tr["calls"]:
        if c["id"] != h["id"] or c.get("uid") != uid or c["inc"] != inc or c.get("outcome") != "exited-on-its-own":
            continue
        if c.get("t_end") is None or c["t_end"] > T or view.ends.get(inc, float("inf")) <= c["t_end"]:
            continue
        vs = view.versions(uid)
        during = [v for v in vs if c["t"] <= v["t"] <= c["t_end"]]
        before = [v for v in vs if v["t"] < c["t"]]
        if all(not _meta(v["body"]).get("deletionTimestamp") and _match(h, _labels(v["body"])) and v["event"] != "DELETED"
               for v in during + before[-1:]):
            return True
    return False


def _requiring(view: View, cyc: dict, labels: dict) -> tuple[list[str], list[str]]:
    """(handlers that certainly require the finalizer on an object with these labels, handlers that possibly do)."""
    sure, possible = [], []
    for h in view.handlers:
        if not _match(h, labels):
            continue
        if _mandatory(h, labels) or h["kind"] == "timer":
            sure.append(h["id"])
            possible.append(h["id"])
        elif h["kind"] == "daemon":
            if not _surely_forever(view, h, cyc.get("uid"), cyc["inc"], cyc["t0"]):
                possible.append(h["id"])
            if not any(c["id"] == h["id"] and c.get("uid") == cyc.get("uid") and c["inc"] == cyc["inc"]
                       and c.get("outcome") == "exited-on-its-own" for c in view.tr["calls"]):
                sure.append(h["id"])
    return sure, possible


def check_cycle(ctx: Ctx, view: View, sc: dict, cyc: dict) -> None:
    ap = cyc.get("apply")
    if cyc.get("event_type") == "DELETED" or not ap or cyc.get("error") or "remaining_fns" not in ap:
        return
    if (cyc.get("mem_before") or {}).get("throttled"):
        return
    body = cyc["body"]
    fins, labels, marked = _fins(body), _labels(body), bool(_meta(body).get("deletionTimestamp"))
    req_sure, req_by = _requiring(view, cyc, labels)
    merge, js = _main_requests(view, cyc)
    if merge is not None and merge.get("response") != 200:
        return
    fresh = _fins(merge["result"]) if merge is not None and isinstance(merge.get("result"), dict) else fins
    after = None
    if js is not None and js.get("response") == 200 and isinstance(js.get("result"), dict):
        after = _fins(js["result"])
    rejected = js is not None and js.get("response") != 200
    want = None
    if not marked and OWN not in fins and req_sure:
        want = True
    elif OWN in fins and not req_by and not (merge is not None and isinstance(merge.get("result"), dict)
                                             and _requiring(view, cyc, _labels(merge["result"]))[1]):
        want = False   # (unless the cycle's own merge-patch response already shows a requirement again)
    if want is not None and not rejected:
        have = (OWN in after) if after is not None else (OWN in fresh)
        if have != want:
            what = (f"cycle {cyc['i']} saw an unmarked object without the finalizer matched by {req_sure} and did not add it" if want else
                    f"cycle {cyc['i']} saw the finalizer on an object that no finalizer-requiring handler matches and did not remove it")
            ctx.oracle_fail(what, {"scenario": sc, "cycle": cyc["i"], "labels": labels, "finalizers": fins, "json_patch": js and js.get("payload")},
                            {"site": "processing.process_resource_causes", "shape": "not added when required" if want else "not removed when not required"})
    if after is not None and OWN in after and OWN not in fresh and (not req_by or marked):
        carried = _carried(cyc)
        stale = "block_deletion" in ap["fns"][:carried] and "block_deletion" not in ap["fns"][carried:]
        why = "the object is already marked for deletion" if marked else "no finalizer-requiring handler matches the object it saw"
        note = " [the addition was carried in memory.remaining_patch from an earlier cycle that got HTTP 422; this cycle decided none]" if stale else ""
        ctx.oracle_fail(f"cycle {cyc['i']} added the finalizer although {why}{note}",
                        {"scenario": sc, "cycle": cyc["i"], "labels": labels, "json_patch": js.get("payload")},
                        SIG_F5C if stale else {"site": "processing.process_resource_causes",
                                               "shape": "added on a marked object" if marked else "added when not required"})


def _classify_stuck(view: View, cycles: list[dict]) -> dict:
    last = cycles[-1] if cycles else None
    ap = (last or {}).get("apply") or {}
    merge, js = _main_requests(view, last) if last else (None, None)
    noop = merge is not None and isinstance(merge.get("result"), dict) and \
        _meta(merge["result"]).get("resourceVersion") == last.get("rv") and js is None
    carried = _carried(last) if last is not None else 0
    if last is not None and ap and "remaining_fns" not in ap:
        failed = [r for r in _cycle_requests(view, last) if r.get("fault") and r.get("response") not in (200, 422)]
        if failed:
            return SIG_F10     # `apply` never returned: the last cycle died in its patching, inside `throttled()`
    if carried and not ap.get("patch") and merge is None and js is None and not last.get("pcc") and \
            len(ap.get("fns") or []) != len(_own_fns(ap.get("fns") or [])):
        return SIG_F9
    if ap.get("delays") and not ap.get("patch") and ap.get("fns") and merge is None and js is None:
        return SIG_F8
    if ap.get("delays") and ap.get("patch") and noop:
        return SIG_F7
    if last is not None and last.get("consistency_time") is not None and not last.get("pcc") and not ap.get("delays") and \
            (noop or (merge is None and js is None)) and (ap.get("patch") or ap.get("fns")):
        return SIG_N6      # (C03-N6 / C07-F2, repaired in /repo 30557a0: the early exit returns the rest of the waiting time)
    if ap.get("patch") and noop and not last.get("pcc"):
        return SIG_F6
    return {"site": "processing.process_resource_causes", "shape": "never released"}


def check_liveness(ctx: Ctx, view: View, sc: dict, tr: dict) -> None:
    end = float(sc.get("end", 60.0))
    if any(r.get("fault") and r.get("response") == 422 for r in tr["requests"]):
        return     # an injected 422 without a real concurrent write produces no follow-up event
    # (other injected answers — an API outage: HTTP 5xx on some requests — are no excuse: they end, the object is still there)
    starts = [m for m in tr["marks"] if m["what"] == "start"]
    if not starts:
        return
    last = starts[-1]
    if any(m["what"] in ("stopped", "killed") and m["t"] < end and m["inc"] == last["inc"] for m in tr["marks"]):
        return
    quiet_from = max([last["t"]] + [m["t"] for m in tr["marks"] if m["what"] == "op"])
    if end - quiet_from < 25.0:
        return
    for key, body in tr["final_objects"].items():
        if not key.startswith("kopfexamples/"):
            continue
        mine = [c for c in tr["cycles"] if c.get("uid") == _meta(body).get("uid")]
        if mine and (mine[-1].get("error") or mine[-1].get("t1", end) >= end):
            continue   # a cycle is still sleeping on a delay when the scenario ends
        m = _meta(body)
        if not m.get("deletionTimestamp") or OWN not in _fins(body):
            continue
        uid, labels = m.get("uid"), _labels(body)
        blockers = []
        for h in view.handlers:
            # strictly the property's list: matching MANDATORY deletion handlers that have not finished, and matching
            # daemons/timers that are alive (an optional handler still retrying, or a mismatching daemon still being
            # stopped, is no excuse for keeping the finalizer forever)
            if _mandatory(h, labels) and not view.finished(h, uid, end):
                blockers.append(h["id"])
            if h["kind"] in SPAWNING_KINDS and _match(h, labels) and view.live_calls(h, uid, end):
                blockers.append(h["id"])
        if not blockers:
            ctx.oracle_fail(f"the object is marked for deletion, every matching deletion handler has finished, no daemon runs, yet the "
                            f"finalizer is still there {end - quiet_from:g} s after the last external event",
                            {"scenario": sc, "final": body},
                            _classify_stuck(view, mine))


# ---- running --------------------------------------------------------------------------------------
def _corpus() -> list[tuple[str, dict]]:
    return [(n, d["scenario"] if "scenario" in d else d) for n, d in load_corpus(ID) if "threads" not in d]


# =============================================================================================
# (R) real threads: the sync branch of `invoke` and the release of the finalizer, on a real loop
# =============================================================================================
def gen_invoke(rng: Any) -> dict:
    """Label lists for the real `invoke`: cancellations at any moments and any number of them, the function returning
    or raising at any moment (or not at all within the list), the loop running in between or not."""
    n = rng.choice([1, 2, 3, 4, 4, 5, 6, 8])
    labels = [rng.choice(["cancel", "cancel", "wake"]) for _ in range(n)]
    if rng.random() < 0.8:
        labels.insert(rng.randrange(len(labels) + 1), rng.choice(["return", "return", "raise"]))
    if rng.random() < 0.7:
        labels.append("wake")
    return {"kind": "invoke", "labels": labels}


THREAD_BACKOFFS = [None, None, None, 0.125, 0.25]
THREAD_TIMEOUTS = [None, 0, 0.125, 60, 60, 600, 3600]


def gen_e2e(rng: Any) -> dict:
    """An object served by a SYNC daemon/timer whose function is (mostly) busy in its thread when the deletion is
    requested; events before/after, pauses that let a short backoff/timeout pass, the function returning or raising at
    some moment or only in the end."""
    handler = rng.choice(["daemon", "daemon", "daemon", "daemon", "timer"])
    case: dict[str, Any] = {"kind": "e2e", "handler": handler, "mode": rng.choice(["busy", "busy", "busy", "obey"])}
    if handler == "daemon":
        case["backoff"] = rng.choice(THREAD_BACKOFFS)
        case["timeout"] = rng.choice(THREAD_TIMEOUTS)
    else:
        case["interval"] = rng.choice([0.015625, 0.03125, 0.25])
    if rng.random() < 0.3:
        case["finalizer"] = rng.choice(CUSTOM_OWNS)
    if rng.random() < 0.5:
        case["foreign"] = rng.choice([["other.io/a"], ["x", "other.io/b"], [DEFAULT_OWN + "2"]])
    steps: list[Any] = ["poke"] * rng.choice([0, 0, 1]) + ["delete"]
    for _ in range(rng.choice([0, 1, 2, 3])):
        steps.append(rng.choice(["poke", "poke", ["idle", 0.125], ["idle", 0.3125]]))
    if rng.random() < 0.5:
        steps += [rng.choice(["release", "release", "release-raise"]), "poke"]
    case["steps"] = steps
    return case


def _abandoned(case: dict, since_mark: float | None) -> bool:
    """The property's "abandoned after its timeouts": a cancellation timeout is declared and backoff + timeout have passed
    since the deletion was requested (kopf counts from its first stop request, which is not earlier)."""
    t = case.get("timeout")
    if case.get("handler") != "daemon" or t is None or since_mark is None:
        return False
    return since_mark >= float(t) + float(case.get("backoff") or 0)


def oracle_threads(ctx: Ctx, case: dict, res: dict) -> None:
    """From the property text alone: the finalizer is still there while a function of a matching daemon/timer of the object
    is running and its cancellation timeouts are not over."""
    for rm in res.get("removals", []):
        if rm.get("foreign"):
            continue
        if not rm["fn_running"]:
            ctx.count("R.removal", "after the function returned")
        elif _abandoned(case, rm.get("since_mark")):
            ctx.count("R.removal", "function still running, daemon abandoned after its timeouts")
        else:
            ctx.count("R.removal", "EARLY: function running, not abandoned")
            ctx.oracle_fail("the operator removed its finalizer while the function of a matching sync daemon/timer is still running in its "
                            "thread and the daemon is not abandoned (no cancellation timeout is over)",
                            {"threads": case, "removal": rm, "stops": res.get("stops", [])[-4:], "history": res.get("history")}, SIG_THREAD)
    # foreign finalizers: never added, dropped or reordered (the only writer of finalizers here is the operator)
    foreign = [f for f in (case.get("foreign") or [])]
    own = case.get("finalizer") or DEFAULT_OWN
    for h in res.get("history") or []:
        if [f for f in h["fins"] if f != own] != foreign:
            ctx.oracle_fail("foreign finalizers changed by the operator", {"threads": case, "history": res.get("history")},
                            {"site": "finalizers", "shape": "foreign finalizers changed"})
            break


def _us(x: float) -> int:
    return int(float(x) * 1_000_000)


def run_threads(ctx: Ctx, n_invoke: int, n_e2e: int, corpus_only: bool = False) -> None:
    cases: list[dict] = [d["threads"] for _n, d in load_corpus(ID) if "threads" in d]
    n_corpus = len(cases)
    if not corpus_only:
        seen = {json.dumps(c, sort_keys=True) for c in cases}
        for gen, n in ((gen_invoke, n_invoke), (gen_e2e, n_e2e)):
            for _ in range(n):
                c = gen(ctx.rng)
                k = json.dumps(c, sort_keys=True)
                if k not in seen:
                    seen.add(k)
                    cases.append(c)
    results = threads.run_many(cases, wall=150.0, jobs=8)
    reqs, impls, where = [], [], []
    for idx, (case, res) in enumerate(zip(cases, results)):
        if "harness_error" in res:
            raise RuntimeError(f"real-thread run failed: {res['harness_error']}\n{res.get('tb', '')[-1500:]}\n{json.dumps(case)}")
        ctx.traces += 1
        if res.get("ceiling"):
            ctx.count("R.inconclusive (a ceiling was hit)", str(res["ceiling"])[:60])
            continue
        if case["kind"] == "invoke":
            labels = case["labels"]
            ctx.count("R.invoke.cancels", sum(1 for l in labels if l == "cancel"))
            ctx.count("R.invoke.function", next((l for l in labels if l in ("return", "raise")), "still running"))
            ctx.count("R.invoke.fin", str(res.get("fin")))
            ctx.case(key={"invoke": labels}, nontrivial="cancel" in labels, sample=None)
            # the ordering law itself, read off the real run
            if any(o["done"] and not o["returned"] for o in res["obs"]):
                ctx.count("R.invoke.law", "BROKEN: task done before the function returned")
            reqs.append(["C06.invoke", True, labels])
            impls.append([{"done": o["done"], "returned": o["returned"], "fin": None} for o in res["obs"][:-1]]
                         + [{"done": res["obs"][-1]["done"], "returned": res["obs"][-1]["returned"], "fin": res.get("fin")}])
            where.append({"threads": case, "what": "invoke", "observed": res["obs"], "fin": res.get("fin")})
            continue
        ops = [s if isinstance(s, str) else s[0] for s in case["steps"]]
        stops = res.get("stops", [])
        busy_at_stop = any(st["fn_running"] for st in stops)
        ctx.count("R.e2e.handler", f"{case['handler']}/{case['mode']}")
        ctx.count("R.e2e.timeouts", f"backoff={case.get('backoff')} timeout={case.get('timeout')}" if case["handler"] == "daemon" else "timer")
        ctx.count("R.e2e.function_busy_when_asked_to_stop", busy_at_stop)
        ctx.count("R.e2e.released_in_the_end", bool(res.get("released_in_the_end")))
        if res.get("errors"):
            ctx.count("R.e2e.cycle_errors", res["errors"][0][:80])
        ctx.case(key={"e2e": [case["handler"], case["mode"], case.get("backoff"), case.get("timeout"), ops, bool(case.get("foreign")),
                              bool(case.get("finalizer"))]},
                 nontrivial=busy_at_stop, sample={"threads": case, "removals": res.get("removals")} if idx < n_corpus + 2 else None)
        oracle_threads(ctx, case, res)
        for st in stops:
            b, t = st.get("backoff"), st.get("timeout")
            args = [None if b is None else _us(b), None if t is None else _us(t)]
            reqs.append(["C06.stop", bool(st["done_after"]), *args, _us(st["age0"]), 1])
            impls.append({"delays": st["delays"] > 0, "age": "age0"})
            where.append({"threads": case, "what": "stop_daemons", "stop": st})
            reqs.append(["C06.stop", bool(st["done_after"]), *args, _us(st["age1"]), 1])
            impls.append({"delays": st["delays"] > 0, "age": "age1"})
            where.append({"threads": case, "what": "stop_daemons", "stop": st})
    try:
        outs = ctx.driver.ask(reqs) if reqs else []
    except leanio.LeanError as e:
        raise RuntimeError(f"Lean driver failed (toolchain/harness problem, not a verdict): {e}\n{e.log[-1500:]}")
    k = 0
    while k < len(reqs):
        req, impl, out, wh = reqs[k], impls[k], outs[k], where[k]
        if not out or out[0] != "ok":
            ctx.tie_fail("driver rejected a real-thread step", {"request": req, "answer": out, **wh})
            k += 1
            continue
        if req[0] == "C06.invoke":
            model = [{"done": m["done"], "returned": m["returned"], "fin": None} for m in out[1][:-1]] + [out[1][-1]]
            ctx.compare("C06 sync branch of invoke (task done / function returned after each label, and how the task ended)", impl, model, wh)
            k += 1
        else:
            # the model at the age read before and after the call: kopf's own reading lies in between
            out2 = outs[k + 1]
            if out2 and out2[0] == "ok" and out[1] == out2[1]:
                ctx.count("R.stop_daemons", ("delay" if out[1] else "no delay") + (", task done" if req[1] else ", task not done"))
                ctx.compare("C06 stop_daemons: is a delay reported for the daemon", impl["delays"], out[1], wh)
            else:
                ctx.count("R.stop_daemons", "at a stage boundary (not compared)")
            k += 2
    ctx.count("R.cases", "corpus", n_corpus)
    ctx.count("R.cases", "generated", len(cases) - n_corpus)



def slot_histories(ctx: Ctx, sc: dict, tr: dict) -> list[tuple[list, list, dict]]:
    """Tie L: the daemon-related observations of one whole-operator run (harness/props/sim_c06.py: every spawn_daemons call for a
    matching handler, every stopper.set of an invocation, every end of `_runner`, every stop_daemons call given one daemon),
    one history per (operator memory of the object, handler id), as the model's labels + what was read off the real
    `memory.running_daemons` / tasks / stoppers right after each. → [(labels, checks, where)], checks = (index of the label
    after which it was observed, kind, observation)."""
    hists: dict[tuple, list[dict]] = {}
    for e in tr.get("slots") or []:
        hists.setdefault((e["mem"], e["hid"]), []).append(e)
    fam = sc.get("family", "general")
    out = []
    for (mem, hid), evs in hists.items():
        labels: list[list] = []
        checks: list[tuple[int, str, Any]] = []
        abandoned: set[int] = set()
        shape = set()
        for e in evs:
            lab = e["label"]
            if lab[0] == "report":
                checks.append((len(labels) - 1, "report", e["obs"]))
                ctx.count("L.stop_daemons_report", "no delay" if e["obs"]["noDelay"] else "delay")
                continue
            prev = ([c[2] for c in checks if c[1] == "state"] or [None])[-1]
            labels.append(lab)
            ctx.count("L.label_kinds", lab[0])
            ctx.count(f"L.label_kinds[{fam}]", lab[0])
            if e["obs"] is None:
                ctx.count("L.labels_without_snapshot (same id twice in one spawn_daemons call)", 1)
                continue
            obs = e["obs"]
            checks.append((len(labels) - 1, "state", obs))
            if lab[0] == "abandon":
                abandoned |= {i[0] for i in obs["live"] if i[2]}
            if lab[0] == "exit" and lab[1] in abandoned:
                shape.add("an abandoned invocation ended later")
            if lab[0] == "spawn" and prev is not None and prev["slot"] is not None:
                rec = [i for i in prev["live"] if i[0] == prev["slot"]]
                shape.add("spawn over a recorded invocation: " + ("abandoned" if rec and rec[0][2] else "told to stop" if rec and rec[0][1]
                                                                    else "running" if rec else "not alive"))
            if lab[0] == "spawn" and obs["slot"] not in (None, 0) and (prev is None or prev["slot"] != obs["slot"]):
                shape.add("a later invocation started")
        for sh in shape or {"plain"}:
            ctx.count("L.histories", sh)
            ctx.count(f"L.histories[{fam}]", sh)
        ctx.count("L.labels_per_history", min(len(labels), 40) // 5 * 5)
        out.append((labels, checks, {"scenario": sc, "what": "slots", "memory": mem, "handler": hid, "labels": labels}))
    return out


def compare_slots(ctx: Ctx, states: list, checks: list, wh: dict) -> None:
    for idx, kind, obs in checks:
        st = states[idx] if 0 <= idx < len(states) else {"disabled": "(no state)"}
        at = {**wh, "labels": wh["labels"][:idx + 1], "after_label": idx}
        if "disabled" in st or any("disabled" in x for x in states[:idx]):
            ctx.compare("C06 slots: the label the operator was seen to take is enabled in sstep", {"enabled": True}, {"enabled": False}, at)
            return
        if kind == "state":
            ctx.count("L.comparisons", "state after a label (recorded invocation, invocations alive, told/abandoned)")
            if not ctx.compare("C06 slots: running_daemons[id] / alive invocations / stop flags after a label", obs,
                               {"slot": st["slot"], "live": st["live"]}, at):
                return
        else:
            ctx.count("L.comparisons", "stop_daemons report (delay or none)")
            if not ctx.compare("C06 slots: what stop_daemons reported for the recorded invocation", obs, {"noDelay": st["noDelay"]}, at):
                return


def run_scenarios(ctx: Ctx, scenarios: list[dict], names: list[str | None]) -> None:
    results = pool.run_many(scenarios, wall=40.0)
    reqs, impls, where = [], [], []
    for sc, res, name in zip(scenarios, results, names):
        if "trace" not in res:
            raise RuntimeError(f"simulation failed: {str(res)[:2000]}")
        tr = res["trace"]
        if tr.get("sim_error"):
            raise RuntimeError(f"simulation error: {tr['sim_error']} in {json.dumps(sc)[:1500]}")
        ctx.traces += 1
        before = len(ctx.failures)
        _use(sc)
        ctx.count("S.own_finalizer", "default" if OWN == DEFAULT_OWN else "configured")
        stats = oracle(ctx, sc, tr)
        ctx.count("S.removals_by_operator", "early" if stats["early"] else ("some" if stats["removals"] else "none"))
        if name is not None and name.startswith("F5") and len(ctx.failures) == before:
            ctx.notes.append(f"witness {name} no longer fails on this tree")
        view = View(sc, tr)
        ti = trace_items(view)
        if ti is None:
            ctx.count("A.traces", "not eligible (aggregation of several handlers)")
        else:
            init, titems, tnote = ti
            ctx.count("A.traces", "replayed" if not tnote["truncated"] else "replayed up to: " + str(tnote["truncated"])[:60])
            ctx.count("A.labels", "total", len(titems))
            for lab, _e in titems:
                ctx.count("A.label_kinds", lab[0])
            reqs.append(["C06.replay", OWN, init, titems])
            impls.append({"accepted": len(titems)})
            where.append({"scenario": sc, "what": "trace acceptance", "items": titems if len(titems) < 80 else titems[:80]})
        for slabels, schecks, swh in slot_histories(ctx, sc, tr):
            reqs.append(["C06.slots", slabels])
            impls.append(schecks)
            where.append(swh)
        prev: dict[tuple, dict] = {}
        for cyc in tr["cycles"]:
            ab = abstract_cycle(view, cyc)
            key = (cyc["inc"], cyc.get("uid"))
            if ab is None:
                ctx.count("S.cycles", "unobservable (DELETED event / cut short / throttled)")
                if cyc.get("event_type") == "DELETED":
                    prev.pop(key, None)
                continue
            # memory continuity: what this cycle starts with is what the previous one of the same process left
            p = prev.get(key)
            if p is not None and p["carried_after"] is not None and p["carried_after"] != ab["carried_raw"]:
                ctx.tie_fail("carried fns differ from what the previous cycle left in memory", {"scenario": sc, "cycle": cyc["i"]})
            if p is None and ab["carried_raw"]:
                ctx.tie_fail("a fresh memory starts with carried fns", {"scenario": sc, "cycle": cyc["i"]})
            prev[key] = ab
            i = ab["in"]
            js = ab["json"]
            outcome = "none" if js is None else str(js.get("response"))
            shape = {"in": i, "carried": ab["fns"][:ab["carried"]], "new": ab["new"], "merge": ab["merge"] is not None, "json": outcome}
            nontrivial = bool(ab["fns"]) or i["spawnReq"] or i["changeReq"]
            ctx.case(key=shape, nontrivial=nontrivial,
                     sample={"scenario_seed": sc.get("seed"), "cycle": cyc["i"], "inputs": i, "impl_fns": ab["new"], "carried": ab["carried"],
                             "json_patch": outcome} if ab["fns"] and ab["carried"] else None)
            ctx.count("S.decision", ",".join(ab["new"]) or "-")
            ctx.count("S.carried", ab["carried"])
            ctx.count("S.carried_fns_dropped_before_the_cycle", ab["forgotten"])
            ctx.count("S.json_patch", outcome)
            ctx.count("S.merge_first", ab["merge"] is not None and js is not None)
            if js is not None:
                # the model's JSON-patch step is accepted iff the version is the one of `fresh_body` (the last merge response,
                # else the body the cycle was given): the request must carry exactly that test, first
                mg = ab["merge"]
                base = mg["result"] if mg is not None and mg.get("response") == 200 and isinstance(mg.get("result"), dict) else cyc["body"]
                pl = js.get("payload") if isinstance(js.get("payload"), list) else []
                t0 = pl[0] if pl and isinstance(pl[0], dict) else {}
                if not (t0.get("op") == "test" and t0.get("path") == "/metadata/resourceVersion"
                        and t0.get("value") == _meta(base).get("resourceVersion")):
                    ctx.tie_fail("the JSON patch is not guarded by a test of the version its operations were computed against",
                                 {"scenario": sc, "cycle": cyc["i"], "json_patch": pl, "fresh_version": _meta(base).get("resourceVersion")})
            reqs.append(["C06.decide", i])
            impls.append({"fns": ab["new"], "handlersRun": ab["ran"], "delays": bool(cyc["apply"].get("delays"))})
            where.append({"scenario": sc, "cycle": cyc["i"], "what": "decision"})
            # application.apply: with delays, the cycle ends in sleep-then-touch iff its patch was empty
            slept = _slept(view, cyc, ab)
            if cyc["apply"].get("delays") and slept is not None:
                reqs.append(["C06.sleeps", True, _changed(cyc, ab)])
                impls.append(slept)
                where.append({"scenario": sc, "cycle": cyc["i"], "what": "sleep"})
                ctx.count("S.sleep_after_delays", slept)
            if ab["user_fns"]:
                ctx.count("S.cycles", "patch step not compared (handler-supplied fns in the patch)")
            elif ab["fresh"] is not None and (js is None or js.get("response") in (200, 422)):
                accepted = js is None or js.get("response") == 200
                reqs.append(["C06.patch", OWN, ab["fns"], ab["fresh"], ab["marked"], accepted])
                impl_fins = ab["fresh"]
                if js is not None and js.get("response") == 200 and isinstance(js.get("result"), dict):
                    impl_fins = _fins(js["result"])
                impls.append({"sent": js is not None, "fins": impl_fins,
                              "carried": ab["carried_after"] if ab["carried_after"] is not None else 0})
                where.append({"scenario": sc, "cycle": cyc["i"], "what": "patch"})
    ctx.count("S.scenarios", "run", len(scenarios))
    try:
        outs = ctx.driver.ask(reqs)
    except leanio.LeanError as e:
        raise RuntimeError(f"Lean driver failed (toolchain/harness problem, not a verdict): {e}\n{e.log[-1500:]}")
    for req, impl, out, wh in zip(reqs, impls, outs, where):
        if not out or out[0] != "ok":
            ctx.tie_fail("driver rejected a step", {"request": req, "answer": out, **wh})
            continue
        m = out[1]
        if req[0] == "C06.decide":
            ctx.compare("C06 decision block", impl, m, wh)
        elif req[0] == "C06.replay":
            ctx.compare("C06 trace acceptance (labels enabled in lstep, abstract state equal)", impl, m, wh)
        elif req[0] == "C06.sleeps":
            ctx.compare("C06 sleep-then-touch after delays", impl, m, wh)
        elif req[0] == "C06.slots":
            compare_slots(ctx, m, impl, wh)
        else:
            view_fins = req[3]
            sent = m["sent"]
            model = {"sent": sent, "fins": m["fins"] if m["written"] else view_fins, "carried": len(m["carried"])}
            ctx.compare("C06 JSON-patch step", impl, model, wh)


def run(ctx: Ctx) -> None:
    run_threads(ctx, ctx.budget(24, 400), ctx.budget(24, 240))
    run_lists(ctx)
    run_registry(ctx)
    n = ctx.budget(200, 10000)
    corpus = _corpus()
    nr = ctx.budget(60, 3000)
    scenarios = [sc for _, sc in corpus] + [gen_rematch(ctx.rng, ctx.seed * 1_000_000 + 500_000 + i) for i in range(nr)] + \
        [gen_scenario(ctx.rng, ctx.seed * 1_000_000 + i) for i in range(n)]
    names: list[str | None] = [nm for nm, _ in corpus] + [None] * (nr + n)
    for sc in scenarios:
        for h in sc.get("handlers", []):
            ctx.count("S.handler_kinds", h["kind"] + ("(optional)" if (h.get("opts") or {}).get("optional") else "")
                      + ("(stacked)" if "stack" in h else ""))
        ctx.count("S.status_subresource", bool(sc.get("status_subresource")))
        ctx.count("S.slips", len(sc.get("slips", [])))
        ctx.count("S.faults", len(sc.get("faults", [])))
        ctx.count("S.restarts", sum(1 for e in sc["timeline"] if e[1] in ("stop", "kill")))
        ctx.count("S.deleted", any(e[1] == "delete" for e in sc["timeline"]))
        ctx.count("S.family", sc.get("family", "general"))
        for h in sc.get("handlers", []):
            if h["kind"] == "daemon":
                ctx.count("S.daemon_mode", h["daemon"]["mode"])
        ctx.count("S.lost_echoes (echo delay + cut streams)", bool(sc.get("echo_delay")))
    run_scenarios(ctx, scenarios, names)
    ctx.extra["notes"] = ctx.notes


def search(ctx: Ctx, broken: list) -> None:
    """A proof/tie is broken: look for a concrete failing history/list with the oracle at a larger budget."""
    start = len(ctx.failures)
    known = (SIG_F5, SIG_F5B, SIG_F10)     # open findings (and F5's history): not what is looked for

    def found() -> bool:
        return any(f.kind == "oracle" and f.signature not in known for f in ctx.failures[start:])

    run_threads(ctx, ctx.budget(100, 600), ctx.budget(100, 400))
    if found():
        return
    run_lists(ctx)
    run_registry(ctx)
    if found():
        return
    n = ctx.budget(1500, 8000)
    scenarios = [gen_rematch(ctx.rng, 7_500_000 + ctx.seed * 1_000_000 + i) for i in range(n // 5)] + \
        [gen_scenario(ctx.rng, 7_000_000 + ctx.seed * 1_000_000 + i) for i in range(n)]
    directed: list[dict] = []
    seen_sc: set[str] = set()
    for b in broken[:40]:
        rep_ = b.replay if isinstance(b.replay, dict) else {}
        sc = (rep_.get("input") or {}).get("scenario") or rep_.get("scenario")
        if not sc or json.dumps(sc, sort_keys=True) in seen_sc or len(seen_sc) >= 8:
            continue
        seen_sc.add(json.dumps(sc, sort_keys=True))
        directed.append(sc)
        # the quantifier's "foreign write between any two requests": around the history that broke the correspondence,
        # place one foreign write right before each of the operator's first PATCHes
        ops = [["edit", "a", {"metadata": {"labels": {"l": "1"}}}], ["edit", "a", {"metadata": {"labels": {"l": "0"}}}],
               ["edit", "a", {"metadata": {"labels": {"m": "1"}}}], ["edit", "a", {"metadata": {"labels": {"m": "0"}}}],
               ["fins", "a", ["other.io/a", "x"]], ["fins", "a", ["other.io/b"], 0], ["fins", "a", []], ["delete", "a"]]
        for nth in range(1, 9):
            for op in ops:
                for ctype in ("json-patch", None):
                    v = copy.deepcopy(sc)
                    v.pop("faults", None)
                    v["slips"] = [{"nth": nth, "op": op, **({"ctype": ctype} if ctype else {})}]
                    directed.append(v)
    scenarios = directed + scenarios
    for k in range(0, len(scenarios), 400):
        chunk = scenarios[k:k + 400]
        for sc, res in zip(chunk, pool.run_many(chunk, wall=40.0)):
            if "trace" in res and not res["trace"].get("sim_error"):
                oracle(ctx, sc, res["trace"])
        if found():
            return


def replay(ctx: Ctx, data: dict) -> None:
    rep = data.get("replay", data)
    if "threads" in rep:
        case = rep["threads"]
        res = threads.run_many([case], wall=150.0, jobs=1)[0]
        if case.get("kind") == "e2e" and "harness_error" not in res and not res.get("ceiling"):
            oracle_threads(ctx, case, res)
        return
    if "scenario" in rep or "input" in rep:
        sc = rep.get("scenario") or rep.get("input", {}).get("scenario")
        res = pool.run_many([sc], wall=40.0)[0]
        if "trace" in res:
            oracle(ctx, sc, res["trace"])
        return
    if "registrations" in rep:
        got = _ask_registry(rep)
        hits = [d for d in rep["registrations"] if d["resource"] == "kopfexamples" and _filters_match(d, rep["labels"], rep["annotations"])
                and d["kind"] in ("delete", "daemon", "timer") and d["id"] not in rep["excluded"]]
        if got != bool(hits):
            ctx.oracle_fail("requires_finalizer deviates from the statement (a matching finalizer-requiring registration)", rep, data.get("signature"))
        return
    if "finalizer" in rep and "list" in rep:
        from kopf._cogs.structs import finalizers
        b = {"metadata": {"finalizers": list(rep["list"])}}
        for name in rep.get("fns", []):
            getattr(finalizers, name)(b, rep["finalizer"])
        got = list((b.get("metadata") or {}).get("finalizers", []))
        want = list(rep["list"])
        for name in rep.get("fns", []):
            want = spec_block(rep["finalizer"], want) if name == "block_deletion" else spec_allow(rep["finalizer"], want)
        if got != want:
            ctx.oracle_fail("finalizer list function deviates from its specification", rep, data.get("signature"))
