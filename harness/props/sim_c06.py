"""C06's own scenario worker: the shared scenario language plus two things it lacks.

* stacked registrations: a handler declaration may carry `"stack": [opts, opts, …]` — the SAME function is
  registered under the SAME id once per entry (in this order; `opts` of the declaration itself is not used then),
  exactly what stacked decorators `@kopf.on.delete(..., labels=A) @kopf.on.delete(..., labels=B) def fn` do;
* handler-supplied transformation fns: script action `["fn", kind, next]` appends a function to the `patch.fns`
  of the invocation before going on with `next`; `kind` = "noop" (a state-checking fn that is already satisfied:
  touches nothing) | "label" (sets metadata.labels.fn = "1" if absent).

* a configurable finalizer name: the ops `fins` / `strip_own_finalizer` take `settings["persistence.finalizer"]`
  (if set) for the operator's own finalizer instead of kopf's default name;
* daemon mode "linger": waits for the stop flag, then needs `after` seconds before it returns;
* timeline op `cut [410]`: the watch streams of the resource are closed at once — events not yet delivered (delayed echoes,
  `echo_delay`) are LOST; with "410" the event log is compacted first, so that kopf re-lists (as harness/props/sim_c03.py);
* two more observations per cycle record (module attributes of `processing`, as `observe` does): `fns_at_entry` = how many
  transformation fns the cycle's patch holds when `process_resource_causes` is entered (the carried ones: what
  `patch_initially_empty` reads), `spawning_delays` = what `process_spawning_cause` returned.

Run as `python -m harness.props.sim_c06 <wall>`: the shared worker loop with these extensions patched in
(module attributes only, in this subprocess only). `run_many` is the shared pool driving this module.
"""
from __future__ import annotations

import json
import os
import subprocess
import sys
from concurrent.futures import ThreadPoolExecutor
from pathlib import Path
from typing import Any

ROOT = Path(__file__).resolve().parent.parent.parent


def _fn_noop(body: dict) -> None:
    return None


def _fn_label(body: dict) -> None:
    labels = body.setdefault("metadata", {}).setdefault("labels", {})
    if "fn" not in labels:
        labels["fn"] = "1"


USER_FNS = {"noop": _fn_noop, "label": _fn_label}


def _install() -> None:
    import kopf
    from ..sim import observe, scenario

    orig_build = scenario.build_registry
    orig_perform = observe.Observer._perform

    def build_registry(sc: dict, obs: Any) -> Any:
        plain = [h for h in sc.get("handlers", []) if "stack" not in h]
        reg = orig_build({**sc, "handlers": plain}, obs)
        for h in sc.get("handlers", []):
            if "stack" not in h:
                continue
            fn = obs.make_handler(h)
            res = h.get("resource", "kopfexamples")
            for opts in h["stack"]:
                opts = dict(opts)
                for f in ("labels", "annotations"):
                    if f in opts:
                        opts[f] = {k: (kopf.PRESENT if v == "__PRESENT__" else kopf.ABSENT if v == "__ABSENT__" else v)
                                   for k, v in opts[f].items()}
                deco = kopf.daemon if h["kind"] == "daemon" else kopf.timer if h["kind"] == "timer" else getattr(kopf.on, h["kind"])
                deco(res, id=h["id"], registry=reg, **opts)(fn)
        return reg

    async def _perform(self: Any, action: Any, rec: dict, kwargs: dict) -> Any:
        while isinstance(action, list) and action and action[0] == "fn":
            p = kwargs.get("patch")
            if p is not None:
                p.fns.append(USER_FNS[action[1]])
                rec.setdefault("user_fns", []).append(action[1])
            action = action[2] if len(action) > 2 else "ok"
        return await orig_perform(self, action, rec, kwargs)

    # Kubernetes applies optimistic concurrency to a merge patch whose body carries metadata.resourceVersion
    # (HTTP 409 if the object has moved on); the shared fake API ignores the field. Unrepaired kopf never sends it.
    from ..sim import fakeapi
    orig_init = scenario.Sim.__init__

    def sim_init(self: Any, sc: dict) -> None:
        orig_init(self, sc)
        _reset_slots()
        cluster = self.cluster

        def stale_merge(req: dict) -> Any:
            payload = req.get("payload")
            if req["method"] != "PATCH" or "merge-patch" not in (req.get("ctype") or "") or not isinstance(payload, dict):
                return None
            given = (payload.get("metadata") or {}).get("resourceVersion")
            routed = cluster.route(req["path"]) if given is not None else None
            if routed is None or routed[2] is None:
                return None
            cur = cluster.get(routed[0], routed[1], routed[2])
            if cur is not None and cur["metadata"].get("resourceVersion") != given:
                return fakeapi.Fault("status", 409)
            return None
        cluster.fault_rules.append(stale_merge)

    # The foreign-finalizer ops of the shared language know kopf's DEFAULT finalizer name only. With
    # `settings["persistence.finalizer"]` overridden, "the own one" is the configured name (and the default
    # name, if it shows up in a list, is just one more foreign finalizer).
    orig_apply_op = scenario.Sim.apply_op

    def apply_op(self: Any, op: list) -> None:
        if op[0] == "cut":
            # the watch streams of the resource are cut AT ONCE: events not yet delivered (delayed echoes) are lost; with
            # "410" the event log is compacted first, so kopf re-lists instead of re-watching from its last seen version
            if len(op) > 1 and op[1] == "410":
                self.cluster.compact(self.kex)
            for w in list(self.cluster.watches):
                if not w.closed and w.res.key == self.kex.key:
                    w.close()
            self.mark("op", op=list(op))
            return None
        own = (self.sc.get("settings") or {}).get("persistence.finalizer")
        if own is None or op[0] not in ("fins", "strip_own_finalizer"):
            return orig_apply_op(self, op)
        c, kex, args = self.cluster, self.kex, op[1:]
        if op[0] == "fins":
            def f(b: dict, new: list = args[1]) -> None:
                cur = b["metadata"].get("finalizers", [])
                out = list(new[: args[2] if len(args) > 2 else len(new)])
                if own in cur:
                    out.append(own)
                out += list(new[args[2]:]) if len(args) > 2 else []
                b["metadata"]["finalizers"] = out
            c.mutate(kex, "ns", args[0], f)
        else:
            c.mutate(kex, "ns", args[0], lambda b: b["metadata"].__setitem__(
                "finalizers", [x for x in b["metadata"].get("finalizers", []) if x != own]))
        self.mark("op", op=op)

    # One more daemon behaviour: "linger" — obeys the stop flag, but needs `after` seconds of clean-up before it
    # returns (no cancellation timeout: kopf can only poll for its exit; with one: it is cancelled meanwhile).
    orig_make_daemon = observe.Observer._make_daemon

    # And one more: "drag" — works until it is told to stop (flag or cancellation), then needs `after` seconds of clean-up
    # that cannot be cut short: cancellations during it are swallowed (at most `max_ignored` of them), then it returns.
    # With a cancellation timeout shorter than the clean-up the framework gives up on it while it is still alive, and it
    # exits later on its own — the only behaviour in which an ABANDONED invocation is seen to end.
    def _make_drag(self: Any, h: dict) -> Any:
        import asyncio
        d = h.get("daemon", {})
        after, max_ignored = float(d.get("after", 2.0)), int(d.get("max_ignored", 3))

        async def daemon(**kwargs: Any) -> Any:
            if self._muted():
                raise asyncio.CancelledError()
            stopped = kwargs["stopped"]
            rec = self._base_rec(h, kwargs)
            rec["mode"] = "drag"
            key = (rec["uid"] or "", h["id"])
            rec["n"] = self.counters.get(key, 0)
            self.counters[key] = rec["n"] + 1
            self.calls.append(rec)
            began = None
            ignored = 0
            try:
                while True:
                    try:
                        if began is None:
                            await stopped.wait()
                            began = self.sim.now()
                            rec["stop_reason"] = repr(getattr(stopped, "reason", None))
                        left = began + after - self.sim.now()
                        if left <= 0:
                            break
                        await asyncio.sleep(left)
                    except asyncio.CancelledError:
                        if self._muted() or ignored >= max_ignored:
                            rec["outcome"] = "cancelled"
                            raise
                        ignored += 1
                        rec["ignored_cancellations"] = ignored
                        if began is None:
                            began = self.sim.now()
                rec["outcome"] = "exited-after-slow-cleanup"
                return None
            finally:
                rec["t_end"] = self.sim.now()
                rec["muted_end"] = self._muted()

        daemon.__name__ = daemon.__qualname__ = h["id"]
        return daemon


    def _make_daemon(self: Any, h: dict) -> Any:
        # every daemon invocation is watched from outside its function: `flag_t` = the instant at which the framework told
        # THIS invocation to stop (its own `stopped` kwarg became set); absent = never told so far (`flag_watch` marks
        # records that carry the observation). Read by the oracle: an invocation never told to stop was not abandoned.
        inner = _make_daemon_inner(self, h)
        import asyncio

        async def watched(**kwargs: Any) -> Any:
            n0 = len(self.calls)
            stopped = kwargs["stopped"]

            async def watch() -> None:
                rec = self.calls[n0] if len(self.calls) > n0 and self.calls[n0]["id"] == h["id"] else None
                if rec is None:
                    return
                rec["flag_watch"] = True
                await stopped.wait()
                rec.setdefault("flag_t", self.sim.now())

            task = asyncio.get_running_loop().create_task(watch())
            try:
                return await inner(**kwargs)
            finally:
                task.cancel()

        watched.__name__ = watched.__qualname__ = h["id"]
        return watched

    def _make_daemon_inner(self: Any, h: dict) -> Any:
        d = h.get("daemon", {})
        if d.get("mode") == "drag":
            return _make_drag(self, h)
        if d.get("mode") != "linger":
            return orig_make_daemon(self, h)
        import asyncio
        after, poll = float(d.get("after", 2.0)), float(d.get("poll", 0.5))

        async def daemon(**kwargs: Any) -> Any:
            if self._muted():
                raise asyncio.CancelledError()
            stopped = kwargs["stopped"]
            rec = self._base_rec(h, kwargs)
            rec["mode"] = "linger"
            key = (rec["uid"] or "", h["id"])
            rec["n"] = self.counters.get(key, 0)
            self.counters[key] = rec["n"] + 1
            self.calls.append(rec)
            try:
                while not stopped:
                    await stopped.wait(poll)
                rec["stop_reason"] = repr(getattr(stopped, "reason", None))
                rec["flag_seen"] = self.sim.now()
                await asyncio.sleep(after)
                rec["outcome"] = "obeyed-flag-after-cleanup"
                return None
            except asyncio.CancelledError:
                rec["outcome"] = "cancelled"
                raise
            finally:
                rec["t_end"] = self.sim.now()
                rec["muted_end"] = self._muted()

        daemon.__name__ = daemon.__qualname__ = h["id"]
        return daemon

    from kopf._core.reactor import processing
    orig_prc = processing.process_resource_causes
    orig_psc = processing.process_spawning_cause

    async def process_resource_causes(**kw: Any) -> Any:
        rec = observe._cycle.get()
        if rec is not None:
            rec["fns_at_entry"] = len(kw["patch"].fns)
        return await orig_prc(**kw)

    async def process_spawning_cause(**kw: Any) -> Any:
        out = await orig_psc(**kw)
        rec = observe._cycle.get()
        if rec is not None:
            rec["spawning_delays"] = [float(d) for d in out]
        return out


    # ---- the slots of `memory.running_daemons`, seen from outside (tie "L" of c06.py) ------------------------------------
    # One history per (DaemonsMemory, handler id): a label at every call of spawn_daemons for a matching handler (`spawn`),
    # at every `stopper.set(...)` of one of its invocations (`tell`; with DAEMON_ABANDONED: `abandon`; the epilogue's DONE is
    # not a label), at the end of `_runner` (`exit n`), and a pseudo-label `report` after a stop_daemons call that was given
    # exactly one daemon (did it report a delay?). Right after each label the REAL state is read: which invocation
    # `memory.running_daemons[id]` holds, which invocations' `_runner` has not ended, their stoppers' flags.
    from kopf._cogs.aiokits import aioenums
    from kopf._core.engines import daemons as kdaemons
    from kopf._core.intents import stoppers as kstoppers
    slots: dict[str, Any] = {"events": [], "mems": [], "by_stopper": {}, "hist": {}, "keep": []}
    ABANDONED = kstoppers.DaemonStoppingReason.DAEMON_ABANDONED
    DONE = kstoppers.DaemonStoppingReason.DONE

    def _mem_index(mem: Any) -> int:
        for k, m in enumerate(slots["mems"]):
            if m is mem:
                return k
        slots["mems"].append(mem)      # kept alive: identities are not re-used within a scenario
        return len(slots["mems"]) - 1

    def _hist(mem: Any, hid: str) -> dict:
        key = (_mem_index(mem), str(hid))
        if key not in slots["hist"]:
            slots["hist"][key] = {"key": key, "mem": mem, "hid": hid, "insts": []}
        return slots["hist"][key]

    def _snapshot(hist: dict) -> dict:
        rec = hist["mem"].running_daemons.get(hist["hid"])
        slot = None
        if rec is not None:
            inst = slots["by_stopper"].get(id(rec.stopper))
            slot = inst["n"] if inst is not None and inst["hist"] is hist else -1
        return {"slot": slot,
                "live": [[i["n"], bool(i["stopper"].is_set()), bool(i["stopper"].is_set(reason=ABANDONED))]
                         for i in hist["insts"] if not i["exited"]]}

    def _emit(hist: dict, label: list, obs: Any = "now", **extra: Any) -> None:
        try:
            import asyncio
            t = asyncio.get_running_loop().time()
        except RuntimeError:
            t = None
        slots["events"].append({"mem": hist["key"][0], "hid": hist["key"][1], "label": label, "t": t,
                                "obs": _snapshot(hist) if obs == "now" else obs, **extra})

    orig_spawn, orig_stop, orig_runner, orig_set = kdaemons.spawn_daemons, kdaemons.stop_daemons, kdaemons._runner, aioenums.FlagSetter.set

    async def spawn_daemons(**kw: Any) -> Any:
        mem, dm, handlers = kw["memory"], kw["daemons"], list(kw["handlers"])
        loops = mem.live_fresh_body is not None and not mem.operator_exiting and not mem.object_gone and dm is mem.running_daemons
        before = {h.id: dm.get(h.id) for h in handlers}
        out = await orig_spawn(**kw)        # (no suspension point inside: the new tasks have not run yet)
        if loops:
            for k, h in enumerate(handlers):
                hist = _hist(mem, h.id)
                now = dm.get(h.id)
                if now is not None and now is not before[h.id] and id(now.stopper) not in slots["by_stopper"]:
                    inst = {"n": len(hist["insts"]), "stopper": now.stopper, "daemon": now, "hist": hist, "exited": False}
                    hist["insts"].append(inst)
                    slots["by_stopper"][id(now.stopper)] = inst      # (the stopper is kept alive by `inst`)
                # the same id several times in one call (stacked registrations that all match): only the last is observed
                last = all(h2.id != h.id for h2 in handlers[k + 1:])
                _emit(hist, ["spawn"], "now" if last else None)
        return out

    async def stop_daemons(**kw: Any) -> Any:
        given = list(kw["daemons"].values())
        out = await orig_stop(**kw)
        if len(given) == 1:
            inst = slots["by_stopper"].get(id(given[0].stopper))
            if inst is not None:
                _emit(inst["hist"], ["report"], {"noDelay": not list(out)})
        return out

    async def _runner(**kw: Any) -> Any:
        try:
            return await orig_runner(**kw)
        finally:
            inst = slots["by_stopper"].get(id(kw["cause"].stopper))
            if inst is not None:
                inst["exited"] = True
                _emit(inst["hist"], ["exit", inst["n"]])

    def flag_set(self: Any, reason: Any = None) -> None:
        orig_set(self, reason)
        inst = slots["by_stopper"].get(id(self))
        if inst is not None and inst["stopper"] is self and not (reason is not None and reason == DONE):
            abandon = reason is not None and ABANDONED in reason
            _emit(inst["hist"], ["abandon"] if abandon else ["tell"], why=str(getattr(reason, "name", reason)))

    orig_trace = observe.Observer.trace

    def trace(self: Any) -> dict:
        tr = orig_trace(self)
        tr["slots"] = list(slots["events"])
        return tr

    def _reset_slots() -> None:
        slots["events"], slots["mems"], slots["by_stopper"], slots["hist"] = [], [], {}, {}

    kdaemons.spawn_daemons = spawn_daemons  # type: ignore[assignment]
    kdaemons.stop_daemons = stop_daemons  # type: ignore[assignment]
    kdaemons._runner = _runner  # type: ignore[assignment]
    aioenums.FlagSetter.set = flag_set  # type: ignore[method-assign]
    observe.Observer.trace = trace  # type: ignore[method-assign]

    processing.process_resource_causes = process_resource_causes  # type: ignore[assignment]
    processing.process_spawning_cause = process_spawning_cause  # type: ignore[assignment]
    observe.Observer._make_daemon = _make_daemon  # type: ignore[assignment]
    scenario.Sim.apply_op = apply_op  # type: ignore[assignment]
    scenario.Sim.__init__ = sim_init  # type: ignore[assignment]
    scenario.build_registry = build_registry  # type: ignore[assignment]
    observe.Observer._perform = _perform  # type: ignore[assignment]


def worker_main() -> None:
    _install()
    from ..sim import worker
    worker.main()


def _run_batch(items: list[tuple[int, dict]], wall: float, results: dict[int, dict]) -> None:
    pending = list(items)
    env = dict(os.environ)
    env["PYTHONPATH"] = f"{ROOT}:{env.get('KOPF_REPO', '/repo')}"
    env["PYTHONHASHSEED"] = "0"
    while pending:
        payload = "".join(json.dumps({"i": i, "sc": sc}) + "\n" for i, sc in pending)
        p = subprocess.run([sys.executable, "-m", "harness.props.sim_c06", str(wall)], input=payload,
                           capture_output=True, text=True, cwd=str(ROOT), env=env,
                           timeout=wall * (len(pending) + 2) + 120)
        done = set()
        for line in p.stdout.splitlines():
            if line.startswith("{"):
                r = json.loads(line)
                results[r["i"]] = r
                done.add(r["i"])
        rest = [(i, sc) for i, sc in pending if i not in done]
        if not rest:
            return
        if p.returncode == 0 and len(rest) == len(pending):
            for i, _ in rest:
                results[i] = {"i": i, "harness_error": "worker produced no output", "tb": p.stderr[-2000:]}
            return
        i0, _sc0 = rest[0]
        tail = p.stderr[p.stderr.rfind(f"@@BEGIN {i0}"):][-6000:]
        results[i0] = {"i": i0, "stall": True, "returncode": p.returncode, "stderr": tail}
        pending = rest[1:]


def run_many(scenarios: list[dict], wall: float = 30.0, jobs: int | None = None, batch: int = 25) -> list[dict]:
    """One result per scenario: {"trace": …} | {"stall": True, …} | {"harness_error": …} (as harness.sim.pool)."""
    jobs = jobs or int(os.environ.get("VERIF_JOBS", "0")) or min(16, os.cpu_count() or 4)
    items = list(enumerate(scenarios))
    batches = [items[k:k + batch] for k in range(0, len(items), batch)]
    results: dict[int, dict] = {}
    with ThreadPoolExecutor(max_workers=jobs) as ex:
        list(ex.map(lambda b: _run_batch(b, wall, results), batches))
    return [results.get(i, {"i": i, "harness_error": "missing"}) for i in range(len(scenarios))]


if __name__ == "__main__":
    worker_main()
