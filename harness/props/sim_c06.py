"""C06's own scenario worker: the shared scenario language plus two things it lacks.

* stacked registrations: a handler declaration may carry `"stack": [opts, opts, …]` — the SAME function is
  registered under the SAME id once per entry (in this order; `opts` of the declaration itself is not used then),
  exactly what stacked decorators `@kopf.on.delete(..., labels=A) @kopf.on.delete(..., labels=B) def fn` do;
* handler-supplied transformation fns: script action `["fn", kind, next]` appends a function to the `patch.fns`
  of the invocation before going on with `next`; `kind` = "noop" (a state-checking fn that is already satisfied:
  touches nothing) | "label" (sets metadata.labels.fn = "1" if absent).

Run as `python -m harness.props.sim_c06 <wall>`: the shared worker loop with these two extensions patched in
(module attributes only, in this subprocess only). `run_many` is the shared pool driving this module.
"""
from __future__ import annotations

import json
import os
import subprocess
import sys
from concurrent.futures import ThreadPoolExecutor
from pathlib import Path
from typing import Any

ROOT = Path(__file__).resolve().parent.parent.parent


def _fn_noop(body: dict) -> None:
    return None


def _fn_label(body: dict) -> None:
    labels = body.setdefault("metadata", {}).setdefault("labels", {})
    if "fn" not in labels:
        labels["fn"] = "1"


USER_FNS = {"noop": _fn_noop, "label": _fn_label}


def _install() -> None:
    import kopf
    from ..sim import observe, scenario

    orig_build = scenario.build_registry
    orig_perform = observe.Observer._perform

    def build_registry(sc: dict, obs: Any) -> Any:
        plain = [h for h in sc.get("handlers", []) if "stack" not in h]
        reg = orig_build({**sc, "handlers": plain}, obs)
        for h in sc.get("handlers", []):
            if "stack" not in h:
                continue
            fn = obs.make_handler(h)
            res = h.get("resource", "kopfexamples")
            for opts in h["stack"]:
                opts = dict(opts)
                for f in ("labels", "annotations"):
                    if f in opts:
                        opts[f] = {k: (kopf.PRESENT if v == "__PRESENT__" else kopf.ABSENT if v == "__ABSENT__" else v)
                                   for k, v in opts[f].items()}
                deco = kopf.daemon if h["kind"] == "daemon" else kopf.timer if h["kind"] == "timer" else getattr(kopf.on, h["kind"])
                deco(res, id=h["id"], registry=reg, **opts)(fn)
        return reg

    async def _perform(self: Any, action: Any, rec: dict, kwargs: dict) -> Any:
        while isinstance(action, list) and action and action[0] == "fn":
            p = kwargs.get("patch")
            if p is not None:
                p.fns.append(USER_FNS[action[1]])
                rec.setdefault("user_fns", []).append(action[1])
            action = action[2] if len(action) > 2 else "ok"
        return await orig_perform(self, action, rec, kwargs)

    # Kubernetes applies optimistic concurrency to a merge patch whose body carries metadata.resourceVersion
    # (HTTP 409 if the object has moved on); the shared fake API ignores the field. Unrepaired kopf never sends it.
    from ..sim import fakeapi
    orig_init = scenario.Sim.__init__

    def sim_init(self: Any, sc: dict) -> None:
        orig_init(self, sc)
        cluster = self.cluster

        def stale_merge(req: dict) -> Any:
            payload = req.get("payload")
            if req["method"] != "PATCH" or "merge-patch" not in (req.get("ctype") or "") or not isinstance(payload, dict):
                return None
            given = (payload.get("metadata") or {}).get("resourceVersion")
            routed = cluster.route(req["path"]) if given is not None else None
            if routed is None or routed[2] is None:
                return None
            cur = cluster.get(routed[0], routed[1], routed[2])
            if cur is not None and cur["metadata"].get("resourceVersion") != given:
                return fakeapi.Fault("status", 409)
            return None
        cluster.fault_rules.append(stale_merge)

    scenario.Sim.__init__ = sim_init  # type: ignore[assignment]
    scenario.build_registry = build_registry  # type: ignore[assignment]
    observe.Observer._perform = _perform  # type: ignore[assignment]


def worker_main() -> None:
    _install()
    from ..sim import worker
    worker.main()


def _run_batch(items: list[tuple[int, dict]], wall: float, results: dict[int, dict]) -> None:
    pending = list(items)
    env = dict(os.environ)
    env["PYTHONPATH"] = f"{ROOT}:{env.get('KOPF_REPO', '/repo')}"
    env["PYTHONHASHSEED"] = "0"
    while pending:
        payload = "".join(json.dumps({"i": i, "sc": sc}) + "\n" for i, sc in pending)
        p = subprocess.run([sys.executable, "-m", "harness.props.sim_c06", str(wall)], input=payload,
                           capture_output=True, text=True, cwd=str(ROOT), env=env,
                           timeout=wall * (len(pending) + 2) + 120)
        done = set()
        for line in p.stdout.splitlines():
            if line.startswith("{"):
                r = json.loads(line)
                results[r["i"]] = r
                done.add(r["i"])
        rest = [(i, sc) for i, sc in pending if i not in done]
        if not rest:
            return
        if p.returncode == 0 and len(rest) == len(pending):
            for i, _ in rest:
                results[i] = {"i": i, "harness_error": "worker produced no output", "tb": p.stderr[-2000:]}
            return
        i0, _sc0 = rest[0]
        tail = p.stderr[p.stderr.rfind(f"@@BEGIN {i0}"):][-6000:]
        results[i0] = {"i": i0, "stall": True, "returncode": p.returncode, "stderr": tail}
        pending = rest[1:]


def run_many(scenarios: list[dict], wall: float = 30.0, jobs: int | None = None, batch: int = 25) -> list[dict]:
    """One result per scenario: {"trace": …} | {"stall": True, …} | {"harness_error": …} (as harness.sim.pool)."""
    jobs = jobs or int(os.environ.get("VERIF_JOBS", "0")) or min(16, os.cpu_count() or 4)
    items = list(enumerate(scenarios))
    batches = [items[k:k + batch] for k in range(0, len(items), batch)]
    results: dict[int, dict] = {}
    with ThreadPoolExecutor(max_workers=jobs) as ex:
        list(ex.map(lambda b: _run_batch(b, wall, results), batches))
    return [results.get(i, {"i": i, "harness_error": "missing"}) for i in range(len(scenarios))]


if __name__ == "__main__":
    worker_main()
