"""Whole-operator histories for C03: the scenario language of `harness/sim/scenario.py` plus
 * `[t, "killw", "before"|"after"]` — arm a kill that fires on the operator's NEXT PATCH of the object:
   "before" = the request never reaches the server (kill in the pre-request hook), "after" = the server has
   applied the write and emitted its event, the response never reaches the operator (kill in the
   after-write hook). If no PATCH happens before the next `start`, the operator is killed plainly there.
 * `[t, "relist", "410"|"http410"]` — the watch streams are re-established and re-list the kind although nothing
   changed (the version the operator resumes from is too old): every object is delivered again as it is.
 * `"wfaults": [{"t0":..,"t1":..,"fault":"conn-before"|"conn-after","times":n}]` — lost requests/responses
   on the operator's PATCHes of the object inside a time window (never inside the silent tail).
Run as a subprocess worker: `python -m harness.props.sim_c03 <wall>` (one JSON scenario per stdin line);
`run_many` is the stall-safe pool over it (same contract as `harness.sim.pool.run_many`).
"""
from __future__ import annotations

import asyncio
import copy
import functools
import json
import os
import subprocess
import sys
from concurrent.futures import ThreadPoolExecutor
from pathlib import Path
from typing import Any

from ..sim import fakeapi, observe, scenario, simloop

ROOT = Path(__file__).resolve().parent.parent.parent
OBJ_PATH = "/kopfexamples/"


class WindowFault:
    def __init__(self, spec: dict):
        self.t0, self.t1 = float(spec["t0"]), float(spec["t1"])
        self.kind = spec["fault"]
        self.times = int(spec.get("times", 1))
        self.fired = 0

    def __call__(self, req: dict) -> fakeapi.Fault | None:
        if req["method"] != "PATCH" or OBJ_PATH not in req["path"] or self.fired >= self.times:
            return None
        if not (self.t0 <= req.get("t_global", req["wall"]) <= self.t1):
            return None
        self.fired += 1
        return fakeapi.Fault(self.kind)


def note_seen(body: Any, /, *, value: Any) -> None:
    """A repeatable (idempotent) transformation of the object for `patch.fns`, as docs/patches.rst recommends."""
    seen = body.setdefault("status", {}).setdefault("seen", [])
    if value not in seen:
        seen.append(value)


class Observer03(observe.Observer):
    """Scripted handlers with one more action: `["fn", "x", <next>]` appends a JSON-patch transformation
    function to `patch.fns` (it records the handled `spec.x` in `status.seen`), then goes on with <next>."""

    async def _perform(self, action: Any, rec: dict, kwargs: dict) -> Any:
        while isinstance(action, list) and action and action[0] == "fn":
            p = kwargs.get("patch")
            if p is not None:
                val = ((kwargs.get("body") or {}).get("spec") or {}).get(action[1]) if isinstance(action[1], str) else action[1]
                p.fns.append(functools.partial(note_seen, value=val))
                rec.setdefault("fns", []).append(val)
            action = action[2] if len(action) > 2 else "ok"
        return await super()._perform(action, rec, kwargs)


class Sim03(scenario.Sim):
    def __init__(self, sc: dict):
        super().__init__(sc)
        self.obs = Observer03(self)
        self.registry = scenario.build_registry(sc, self.obs)
        self.armed: str | None = None
        self.cluster.before_request.append(self._tag_cycle)
        self.cluster.before_request.append(self._kill_before)
        self.cluster.after_write.append(self._kill_after)
        for spec in sc.get("wfaults", []):
            self.cluster.fault_rules.append(WindowFault(spec))

    def apply_op(self, op: list) -> None:
        """`fins` / `strip_own_finalizer` of the scenario language know the framework's finalizer by kopf's default name;
        here the name is the CONFIGURED one (`settings.persistence.finalizer`), and kopf's default name on an object of
        such a scenario is somebody else's."""
        own = (self.sc.get("settings") or {}).get("persistence.finalizer")
        if not own or op[0] not in ("fins", "strip_own_finalizer"):
            return super().apply_op(op)
        name = op[1]
        if op[0] == "fins":
            new = list(op[2])

            def f(b: dict) -> None:
                cur = b["metadata"].get("finalizers", [])
                b["metadata"]["finalizers"] = new + ([own] if own in cur else [])
        else:
            def f(b: dict) -> None:
                b["metadata"]["finalizers"] = [x for x in b["metadata"].get("finalizers", []) if x != own]
        self.cluster.mutate(self.kex, "ns", name, f)
        self.mark("op", op=op)

    def _tag_cycle(self, req: dict) -> None:
        """Which processing cycle (of which object uid) issues this request: the request runs in the worker's task."""
        rec = observe._cycle.get()
        if rec is not None:
            req["cycle_i"], req["cycle_uid"] = rec["i"], rec["uid"]

    def _own_patch(self, req: dict) -> bool:
        op = self.ops.get("op")
        return (op is not None and req["method"] == "PATCH" and OBJ_PATH in req["path"]
                and req.get("who") == op.session.identity and not op.killed)

    def _do_kill(self, how: str) -> None:
        op = self.ops.get("op")
        self.armed = None
        if op is not None and op.alive and not op.killed:
            op.kill()
            self.obs.incarnation_killed(op)
            self.mark("killed", op="op", inc=op.n, how=how)

    def _kill_before(self, req: dict) -> None:
        if self.armed == "before" and self._own_patch(req):
            req["killed"] = "before"
            self._do_kill("before-write")

    def _kill_after(self, req: dict, out: Any) -> None:
        if self.armed == "after" and self._own_patch(req):
            req["killed"] = "after"
            self._do_kill("after-write")

    class _Aborted(Exception):
        pass

    async def sleep_until(self, t: float) -> None:
        """Sleep in slices of at most 8 virtual seconds; a framework that PATCHes the object at a sustained
        high rate (more than `max_rate` PATCHes in one slice: every legitimate history stays far below) is cut
        short instead of simulating hundreds of thousands of cycles; the oracle reports it as never settling."""
        limit = int(self.sc.get("max_rate", 300))
        while self.now() < t:
            t0 = self.now()
            await asyncio.sleep(min(t, t0 + 8.0) - t0)
            n = sum(1 for r in reversed(self.cluster.requests[-4 * limit:])
                    if r["method"] == "PATCH" and OBJ_PATH in r["path"] and r["wall"] > t0)
            if n > limit:
                self.mark("aborted", tail_writes=n, window=self.now() - t0)
                raise Sim03._Aborted()

    async def run(self) -> dict:
        try:
            await self._run()
        except Sim03._Aborted:
            pass
        self.mark("end")
        for name, op in self.ops.items():
            if op.alive and not op.killed:
                r = await op.stop(timeout=float(self.sc.get("stop_grace", 8.0)))
                self.mark("stopped", op=name, inc=op.n, result=repr(r), final=True)
        return self.obs.trace()

    async def _run(self) -> None:
        sc = self.sc
        for o in sc.get("objects", []):
            self.cluster.create_raw(self.kex, "ns", o["name"], o.get("body", {"spec": {"x": 0}}))
        timeline = sorted(sc.get("timeline", []), key=lambda e: e[0])
        if not sc.get("no_autostart"):
            await self.start_operator("op")
        for ev in timeline:
            t, kind, args = ev[0], ev[1], ev[2:]
            await self.sleep_until(t)
            op = self.ops.get("op")
            if kind == "stop":
                if op is not None and op.alive and not op.killed:
                    # a supervisor's view: ask for a graceful stop, kill after the grace period
                    r = await op.stop(timeout=float(sc.get("stop_grace", 8.0)))
                    self.mark("stopped", op="op", inc=op.n, result=repr(r))
                    if r == "stop-timeout":
                        self._do_kill("stop-timeout")
            elif kind == "kill":
                self._do_kill("plain")
            elif kind == "killw":
                if op is not None and op.alive and not op.killed:
                    self.armed = args[0]
                    self.mark("armed", how=args[0])
            elif kind == "start":
                if self.armed is not None:
                    self._do_kill("plain-unfired")
                old = self.ops.get("op")
                if old is None or not old.alive or old.killed:
                    await self.start_operator("op")
            elif kind == "cut":
                # the watch streams of the resource are cut AT ONCE: events not yet delivered (delayed echoes) are lost;
                # with "410" the event log is compacted first, so kopf re-lists instead of re-watching from its last version
                if args and args[0] == "410":
                    self.cluster.compact(self.kex)
                for w in list(self.cluster.watches):
                    if not w.closed and w.res.key == self.kex.key:
                        w.close()
                self.mark("op", op=["cut", *args])
            elif kind == "relist":
                # NOTHING changes, the watch streams of the resource are re-established and begin with a listing: every
                # object is delivered again AS IT IS (`type=None`, the resource version the operator has already seen).
                # On a real server: the resource versions are cluster-wide, other kinds' traffic moves them on and the
                # history is compacted, so the version the operator resumes from is "too old" (410 Gone) although no
                # object of this kind has changed. `how`: "410" = an ERROR event in the re-established stream,
                # "http410" = the watch request itself is answered with HTTP 410
                how = args[0] if args else "410"
                self.cluster.rv += 1                      # another kind's write
                self.cluster.compact(self.kex)
                self.cluster.http_410 = (how == "http410")
                for w in list(self.cluster.watches):
                    if not w.closed and w.res.key == self.kex.key:
                        w.close()
                self.mark("relist", how=how)
            else:
                self.apply_op([kind, *args])
        await self.sleep_until(float(sc.get("end", 60.0)))


def run_scenario(sc: dict, wall_limit: float = 60.0) -> dict:
    if not all(simloop.dyadic(e[0]) for e in sc.get("timeline", [])):
        raise ValueError("non-dyadic time in the scenario")
    holder: dict[str, Any] = {}

    async def main() -> dict:
        sim = Sim03(copy.deepcopy(sc))
        holder["sim"] = sim
        with observe.installed(sim.obs):
            return await sim.run()

    try:
        return simloop.run_sim(main, wall_limit=wall_limit)
    except (simloop.SimDeadlock, simloop.SimStall) as e:
        sim = holder.get("sim")
        tr = sim.obs.trace() if sim is not None else {}
        tr["sim_error"] = f"{type(e).__name__}: {e}"
        return tr


# ---- subprocess worker + pool ---------------------------------------------------------------------

def _worker_main() -> None:
    wall = float(sys.argv[1]) if len(sys.argv) > 1 else 30.0
    for line in sys.stdin:
        line = line.strip()
        if not line:
            continue
        item = json.loads(line)
        sys.stderr.write(f"@@BEGIN {item['i']}\n")
        sys.stderr.flush()
        try:
            out = {"i": item["i"], "trace": run_scenario(item["sc"], wall_limit=wall)}
        except Exception as e:  # noqa: BLE001
            import traceback
            out = {"i": item["i"], "harness_error": f"{type(e).__name__}: {e}", "tb": traceback.format_exc()[-3000:]}
        sys.stdout.write(json.dumps(out, default=repr) + "\n")
        sys.stdout.flush()


def _run_batch(items: list[tuple[int, dict]], wall: float, results: dict[int, dict]) -> None:
    pending = list(items)
    env = dict(os.environ)
    env["PYTHONPATH"] = f"{ROOT}:{env.get('KOPF_REPO', '/repo')}"
    env["PYTHONHASHSEED"] = "0"
    while pending:
        payload = "".join(json.dumps({"i": i, "sc": sc}) + "\n" for i, sc in pending)
        try:
            p = subprocess.run([sys.executable, "-m", "harness.props.sim_c03", str(wall)], input=payload,
                               capture_output=True, text=True, cwd=str(ROOT), env=env,
                               timeout=wall * (len(pending) + 2) + 120)
            stdout, stderr, rc = p.stdout, p.stderr, p.returncode
        except subprocess.TimeoutExpired as e:
            stdout = (e.stdout or b"").decode() if isinstance(e.stdout, bytes) else (e.stdout or "")
            stderr = (e.stderr or b"").decode() if isinstance(e.stderr, bytes) else (e.stderr or "")
            rc = -9
        done = set()
        for line in stdout.splitlines():
            if line.startswith("{"):
                r = json.loads(line)
                results[r["i"]] = r
                done.add(r["i"])
        rest = [(i, sc) for i, sc in pending if i not in done]
        if not rest:
            return
        if rc == 0 and len(rest) == len(pending):
            for i, _ in rest:
                results[i] = {"i": i, "harness_error": "worker produced no output", "tb": stderr[-2000:]}
            return
        i0, _sc0 = rest[0]
        tail = stderr[stderr.rfind(f"@@BEGIN {i0}"):][-6000:]
        results[i0] = {"i": i0, "stall": True, "returncode": rc, "stderr": tail}
        pending = rest[1:]


def run_many(scenarios: list[dict], wall: float = 30.0, jobs: int | None = None, batch: int = 12) -> list[dict]:
    jobs = jobs or int(os.environ.get("VERIF_JOBS", "0")) or min(16, os.cpu_count() or 4)
    items = list(enumerate(scenarios))
    batches = [items[k:k + batch] for k in range(0, len(items), batch)]
    results: dict[int, dict] = {}
    with ThreadPoolExecutor(max_workers=jobs) as ex:
        list(ex.map(lambda b: _run_batch(b, wall, results), batches))
    return [results.get(i, {"i": i, "harness_error": "missing"}) for i in range(len(scenarios))]


if __name__ == "__main__":
    _worker_main()
