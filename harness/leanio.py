"""Lean side of every check: locked `lake build`, driver I/O, axiom audit, extraction files."""
from __future__ import annotations

import fcntl
import json
import os
import re
import subprocess
import time
from pathlib import Path
from typing import Any, Iterable, Sequence

ROOT = Path(__file__).resolve().parent.parent
LEAN = ROOT / "lean"
LOCK = LEAN / ".build.lock"
ALLOWED_AXIOMS = {"propext", "Classical.choice", "Quot.sound"}
FORBIDDEN = re.compile(r"\bsorry\b|\badmit\b|^axiom\s|native_decide|bv_decide|implemented_by|\bunsafe\s|maxHeartbeats\s+0\b", re.M)


class LeanError(Exception):
    """A Lean obligation failed to build (a broken proof/tie, not a harness crash)."""

    def __init__(self, msg: str, log: str = ""):
        super().__init__(msg)
        self.log = log


class lake_lock:
    def __enter__(self):
        LOCK.parent.mkdir(parents=True, exist_ok=True)
        self.f = open(LOCK, "w")
        fcntl.flock(self.f, fcntl.LOCK_EX)
        return self

    def __exit__(self, *a):
        fcntl.flock(self.f, fcntl.LOCK_UN)
        self.f.close()


def _run(cmd: Sequence[str], timeout: int = 1800, input: str | None = None) -> subprocess.CompletedProcess:
    return subprocess.run(cmd, cwd=LEAN, capture_output=True, text=True, timeout=timeout, input=input)


def lake_build(targets: Sequence[str] = ()) -> tuple[bool, str]:
    """Build the given module targets (or the default target). Returns (ok, log)."""
    with lake_lock():
        p = _run(["lake", "build", *targets])
    return p.returncode == 0, p.stdout + p.stderr


def write_generated(relpath: str, content: str) -> bool:
    """Write a generated Lean file only when its content changed (keeps no-op builds at 0.2 s)."""
    path = LEAN / relpath
    with lake_lock():
        path.parent.mkdir(parents=True, exist_ok=True)
        if path.exists() and path.read_text() == content:
            return False
        tmp = path.with_suffix(".tmp%d" % os.getpid())
        tmp.write_text(content)
        os.replace(tmp, path)
    return True


def strip_comments(src: str) -> str:
    # nested block comments are rare in our sources; handle one level of nesting conservatively.
    out, i, depth = [], 0, 0
    while i < len(src):
        if src.startswith("/-", i):
            depth += 1
            i += 2
        elif src.startswith("-/", i) and depth:
            depth -= 1
            i += 2
        elif depth:
            if src[i] == "\n":
                out.append("\n")
            i += 1
        elif src.startswith("--", i):
            while i < len(src) and src[i] != "\n":
                i += 1
        else:
            out.append(src[i])
            i += 1
    return "".join(out)


def grep_forbidden(prop: str | None = None) -> list[str]:
    """Scan the Lean sources of this property (files named Cxx*, plus Base) for sorry/admit/axiom/
    native_decide… outside comments. Dependencies on other properties' files are covered by the
    axiom audit (`sorryAx` and own axioms show up in `#print axioms`)."""
    hits = []
    files = sorted((LEAN / "Kopf").rglob("*.lean")) + [LEAN / "Driver.lean"]
    for f in files:
        m = re.search(r"C\d\d", f.name)
        if "Audit" in f.parts or (prop and m and m.group(0) != prop):
            continue
        txt = strip_comments(f.read_text())
        for m in FORBIDDEN.finditer(txt):
            line = txt.count("\n", 0, m.start()) + 1
            hits.append(f"{f.relative_to(LEAN)}:{line}: {m.group(0).strip()}")
    return hits


def audit_axioms(theorems: Sequence[str], imports: Sequence[str], tag: str) -> dict[str, Any]:
    """`#print axioms` for every named theorem; returns {name: [axioms]} or raises LeanError
    if a theorem is missing. Non-standard axioms are reported by the caller."""
    body = "".join(f"import {m}\n" for m in imports)
    body += "".join(f"#print axioms {t}\n" for t in theorems)
    rel = f"Kopf/Audit/{tag}.lean"
    write_generated(rel, body)
    with lake_lock():
        p = _run(["lake", "env", "lean", rel])
    out = p.stdout + p.stderr
    res: dict[str, list[str]] = {}
    # "'Name' depends on axioms: [a, b]" | "'Name' does not depend on any axioms"
    for m in re.finditer(r"'([^']+)' depends on axioms: \[([^\]]*)\]", out, re.S):
        res[m.group(1)] = [a.strip() for a in m.group(2).replace("\n", " ").split(",") if a.strip()]
    for m in re.finditer(r"'([^']+)' does not depend on any axioms", out):
        res[m.group(1)] = []
    missing = [t for t in theorems if t not in res]
    if p.returncode != 0 or missing:
        raise LeanError(f"axiom audit failed; missing={missing}", out)
    return res


class Driver:
    """Batch client for the line-protocol driver. Each property runs its own generated driver
    (lean/drivers/<Prop>.lean importing only the handler modules it needs), so a broken file of
    another property cannot take this property's check down."""

    def __init__(self, modules: Sequence[str] = ()) -> None:
        self.calls = 0
        self.modules = list(modules)

    def _driver_file(self) -> str:
        if not self.modules:
            return "Driver.lean"
        name = "_".join(self.modules)
        rel = f"drivers/{name}.lean"
        body = "".join(f"import Kopf.Drv.{m}\n" for m in self.modules) + "import Kopf.Drv.Main\n"
        body += "def main : IO Unit := Kopf.Drv.runDriver [" + ", ".join(f"Kopf.Drv.{m}.handle" for m in self.modules) + "]\n"
        write_generated(rel, body)
        return rel

    def build_targets(self) -> list[str]:
        return [f"Kopf.Drv.{m}" for m in self.modules] + ["Kopf.Drv.Main"] if self.modules else ["Kopf.Drv.All"]

    def ask(self, requests: Sequence[Any], timeout: int = 1800) -> list[Any]:
        if not requests:
            return []
        payload = "".join(json.dumps(r, ensure_ascii=False, separators=(",", ":")) + "\n" for r in requests)
        rel = self._driver_file()
        p = _run(["lake", "env", "lean", "--run", rel], timeout=timeout, input=payload)
        if p.returncode != 0:
            raise LeanError("driver failed", p.stdout[-4000:] + p.stderr[-4000:])
        outs = [json.loads(l) for l in p.stdout.splitlines() if l.startswith("[")]
        if len(outs) != len(requests):
            raise LeanError(f"driver answered {len(outs)} of {len(requests)} requests", p.stdout[-2000:] + p.stderr[-2000:])
        self.calls += len(requests)
        return outs


def canon(x: Any) -> str:
    return json.dumps(x, sort_keys=True, ensure_ascii=False, separators=(",", ":"))
