"""The translator: Python `ast` of decision logic in /repo → Lean definitions.

Accepted shapes (anything else raises ExtractError — a broken correspondence, never a default):
  * boolean expressions over `and`/`or`/`not`, conditional expressions and *atoms*;
  * if/elif/else chains whose branches `return`/assign a tag (via a per-site result vocabulary);
  * literal constants (tuples/lists/sets/dicts of strings and numbers).
An *atom vocabulary* maps the normalised `ast.unparse` text of a Python sub-expression to a Lean
term. Local single assignments are inlined before the lookup. Statements that are neither a branch
nor an inlinable assignment must be listed verbatim in the site's `ignore` set.
"""
from __future__ import annotations

import ast
from pathlib import Path
from typing import Any, Callable, Iterable

from .core import ExtractError


def parse_file(path: Path) -> ast.Module:
    try:
        return ast.parse(path.read_text())
    except (OSError, SyntaxError) as e:
        raise ExtractError(f"cannot parse {path}: {e}")


def find_def(tree: ast.AST, qualname: str) -> ast.FunctionDef | ast.AsyncFunctionDef | ast.ClassDef:
    node: Any = tree
    for part in qualname.split("."):
        for child in ast.iter_child_nodes(node):
            if isinstance(child, (ast.FunctionDef, ast.AsyncFunctionDef, ast.ClassDef)) and child.name == part:
                node = child
                break
        else:
            raise ExtractError(f"definition {qualname} not found (at {part})")
    return node


def norm(node: ast.AST) -> str:
    return ast.unparse(node).strip()


def body_without_docstring(fn: ast.FunctionDef | ast.AsyncFunctionDef) -> list[ast.stmt]:
    body = list(fn.body)
    if body and isinstance(body[0], ast.Expr) and isinstance(body[0].value, ast.Constant) \
            and isinstance(body[0].value.value, str):
        body = body[1:]
    return body


class BoolTranslator:
    """Python boolean expression → Lean `Bool` term over named atoms."""

    def __init__(self, vocab: dict[str, str], locals_: dict[str, ast.expr] | None = None):
        self.vocab = vocab
        self.locals = dict(locals_ or {})
        self.used: set[str] = set()

    def tr(self, e: ast.expr) -> str:
        text = norm(e)
        if text in self.vocab:
            self.used.add(text)
            return self.vocab[text]
        if isinstance(e, ast.BoolOp):
            op = " && " if isinstance(e.op, ast.And) else " || "
            return "(" + op.join(self.tr(v) for v in e.values) + ")"
        if isinstance(e, ast.UnaryOp) and isinstance(e.op, ast.Not):
            return f"(!{self.tr(e.operand)})"
        if isinstance(e, ast.IfExp):
            return f"(if {self.tr(e.test)} then {self.tr(e.body)} else {self.tr(e.orelse)})"
        if isinstance(e, ast.Constant) and isinstance(e.value, bool):
            return "true" if e.value else "false"
        if isinstance(e, ast.Name) and e.id in self.locals:
            return self.tr(self.locals[e.id])
        raise ExtractError(f"expression outside the atom vocabulary: `{text}`")


def if_chain(stmts: list[ast.stmt], tr: BoolTranslator,
             result: Callable[[list[ast.stmt]], str | None],
             ignore: Iterable[str] = ()) -> list[tuple[str | None, str]]:
    """Flatten a statement list into [(lean condition | None for 'otherwise', lean result)].
    Statements are processed in order; single-target assignments to fresh names are inlined;
    an `if` whose body ends in a result is a branch (its elif/else are flattened)."""
    ignore = set(ignore)
    out: list[tuple[str | None, str]] = []
    for st in stmts:
        text = norm(st)
        if text in ignore:
            continue
        if isinstance(st, ast.Assign) and len(st.targets) == 1 and isinstance(st.targets[0], ast.Name):
            tr.locals[st.targets[0].id] = st.value
            continue
        if isinstance(st, ast.AnnAssign) and isinstance(st.target, ast.Name) and st.value is not None:
            tr.locals[st.target.id] = st.value
            continue
        if isinstance(st, ast.If):
            r = result(st.body)
            if r is None:
                raise ExtractError(f"if-branch without a recognised result: `{text[:120]}`")
            out.append((tr.tr(st.test), r))
            if st.orelse:
                sub = if_chain(st.orelse, tr, result, ignore)
                # an else-part closes the chain for inputs failing the test; fold conditions
                for c, rr in sub:
                    out.append((c, rr))
                if sub and sub[-1][0] is None:
                    return out
            continue
        r = result([st])
        if r is not None:
            out.append((None, r))
            return out
        raise ExtractError(f"statement outside the accepted shapes: `{text[:120]}`")
    return out


def chain_to_lean(chain: list[tuple[str | None, str]], default: str | None = None) -> str:
    parts = []
    closed = False
    for cond, res in chain:
        if cond is None:
            parts.append(res)
            closed = True
            break
        parts.append(f"if {cond} then {res} else")
    if not closed:
        if default is None:
            raise ExtractError("decision chain has no final result")
        parts.append(default)
    return "\n    ".join(parts)


def literal(node: ast.expr) -> Any:
    try:
        return ast.literal_eval(node)
    except Exception:
        raise ExtractError(f"not a literal constant: `{norm(node)[:120]}`")


def module_constant(tree: ast.Module, name: str) -> ast.expr:
    for st in tree.body:
        if isinstance(st, ast.Assign) and any(isinstance(t, ast.Name) and t.id == name for t in st.targets):
            return st.value
        if isinstance(st, ast.AnnAssign) and isinstance(st.target, ast.Name) and st.target.id == name and st.value:
            return st.value
    raise ExtractError(f"module constant {name} not found")


def lean_str(s: str) -> str:
    return '"' + s.replace("\\", "\\\\").replace('"', '\\"') + '"'


HEADER = "-- GENERATED by harness/pyextract.py from {src} on every check run. Do not edit.\n"
