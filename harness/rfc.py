"""Independent implementations of RFC 7386 (merge patch), RFC 6902 (JSON patch) and RFC 6901
(pointers). Written for the harness (fake API server, oracles); never imported by kopf."""
from __future__ import annotations

import copy
from typing import Any


def merge_patch(target: Any, patch: Any) -> Any:
    """RFC 7386. Returns a new value; inputs are not mutated."""
    if not isinstance(patch, dict):
        return copy.deepcopy(patch)
    result = dict(target) if isinstance(target, dict) else {}
    for k, v in patch.items():
        if v is None:
            result.pop(k, None)
        else:
            result[k] = merge_patch(result.get(k), v)
    return result


class PatchError(Exception):
    pass


class TestFailed(PatchError):
    pass


def parse_pointer(ptr: str) -> list[str]:
    if ptr == "":
        return []
    if not ptr.startswith("/"):
        raise PatchError(f"bad pointer {ptr!r}")
    return [p.replace("~1", "/").replace("~0", "~") for p in ptr[1:].split("/")]


def _walk(doc: Any, parts: list[str]) -> Any:
    cur = doc
    for p in parts:
        if isinstance(cur, dict):
            if p not in cur:
                raise PatchError(f"path not found at {p!r}")
            cur = cur[p]
        elif isinstance(cur, list):
            try:
                cur = cur[int(p)]
            except (ValueError, IndexError):
                raise PatchError(f"bad index {p!r}")
        else:
            raise PatchError(f"cannot descend into scalar at {p!r}")
    return cur


def apply_json_patch(doc: Any, ops: list[dict]) -> Any:
    """RFC 6902: add / remove / replace / test / move / copy (jsonpatch.from_diff emits `move` for list
    reorderings). Returns a new document."""
    doc = copy.deepcopy(doc)
    for op in ops:
        kind = op.get("op")
        parts = parse_pointer(op.get("path", ""))
        if kind == "test":
            try:
                cur = _walk(doc, parts)
            except PatchError:
                raise TestFailed(f"test failed: {op['path']} absent")
            if cur != op.get("value"):
                raise TestFailed(f"test failed at {op['path']}: {cur!r} != {op.get('value')!r}")
            continue
        if kind in ("move", "copy"):
            # RFC 6902 4.4/4.5: the value at `from` is (removed and) added at `path`.
            src = parse_pointer(op.get("from", ""))
            val = copy.deepcopy(_walk(doc, src))
            if kind == "move":
                doc = apply_json_patch(doc, [{"op": "remove", "path": op.get("from", "")}])
            doc = apply_json_patch(doc, [{"op": "add", "path": op.get("path", ""), "value": val}])
            continue
        if not parts:
            if kind in ("add", "replace"):
                doc = copy.deepcopy(op.get("value"))
                continue
            raise PatchError("cannot remove the root")
        parent = _walk(doc, parts[:-1])
        last = parts[-1]
        if isinstance(parent, dict):
            if kind == "add":
                parent[last] = copy.deepcopy(op.get("value"))
            elif kind == "replace":
                if last not in parent:
                    raise PatchError(f"replace of a missing key {last!r}")
                parent[last] = copy.deepcopy(op.get("value"))
            elif kind == "remove":
                if last not in parent:
                    raise PatchError(f"remove of a missing key {last!r}")
                del parent[last]
            else:
                raise PatchError(f"unsupported op {kind!r}")
        elif isinstance(parent, list):
            if kind == "add":
                if last == "-":
                    parent.append(copy.deepcopy(op.get("value")))
                else:
                    i = int(last)
                    if not 0 <= i <= len(parent):
                        raise PatchError("index out of range")
                    parent.insert(i, copy.deepcopy(op.get("value")))
            elif kind == "replace":
                i = int(last)
                if not 0 <= i < len(parent):
                    raise PatchError("index out of range")
                parent[i] = copy.deepcopy(op.get("value"))
            elif kind == "remove":
                i = int(last)
                if not 0 <= i < len(parent):
                    raise PatchError("index out of range")
                del parent[i]
            else:
                raise PatchError(f"unsupported op {kind!r}")
        else:
            raise PatchError("parent is a scalar")
    return doc


def drop_empty(x: Any) -> Any:
    """Remove empty mappings recursively (the 'up to the presence of empty mappings' equivalence)."""
    if isinstance(x, dict):
        out = {}
        for k, v in x.items():
            v2 = drop_empty(v)
            if isinstance(v2, dict) and not v2:
                continue
            out[k] = v2
        return out
    return x
