"""Scenario language for whole-operator simulations, and the runner that produces a Trace.

A scenario is one JSON document (also the replay/corpus format):
{
 "seed": 0,
 "settings": {"persistence.consistency_timeout": 5, ...},        # dotted overrides of OperatorSettings
 "status_subresource": false,                                     # kopfexamples has /status?
 "lifecycle": "asap" | "one_by_one" | "all_at_once" | null,
 "handlers": [ {"kind": "create|update|delete|resume|field|event|daemon|timer|index|startup|cleanup",
                "id": "h1", "opts": {...decorator kwargs...},
                "script": ["ok", ["temp", 2], "perm", "arb", ["sleep", 1.5, "ok"], ["patch", {...}, "ok"]],
                "default": "ok",
                "sub": [ {"id": "s1", "script": [...]} ],          # sub-handlers run via kopf.execute
                "daemon": {"mode": "obey|cancel|ignore|exit", "after": 4.0, "poll": 0.5} } ],
 "objects": [ {"name": "a", "body": {...}} ],                      # exist before the operator starts
 "timeline": [ [t, op, *args], ... ]                               # ops: see _apply_op
 "echo_delay": {"default": 0, "rules": [[rv_or_null, etype_or_null, delay]]},
 "faults": [ {"match": {"method": "PATCH", "nth": 2, "ctype": "json-patch"}, "fault": ["status", 422]} ],
 "end": 60.0
}
All times are dyadic (multiples of 2**-10 s). The result is a Trace dict: handler calls, cycles
(one per process_resource_event), requests, object histories, operator lifecycle marks.
"""
from __future__ import annotations

import asyncio
import copy
import random
from typing import Any

from . import fakeapi, observe, runner, simloop


def _mk_fault(spec: list) -> fakeapi.Fault:
    kind = spec[0]
    if kind == "status":
        headers = spec[2] if len(spec) > 2 and isinstance(spec[2], dict) else {}
        details = spec[3] if len(spec) > 3 else None
        return fakeapi.Fault("status", int(spec[1]), headers, details)
    return fakeapi.Fault(kind)


class FaultRule:
    def __init__(self, spec: dict):
        self.match = spec.get("match", {})
        self.fault = spec["fault"]
        self.count = 0
        self.times = spec.get("times", 1)
        self.fired = 0

    def __call__(self, req: dict) -> fakeapi.Fault | None:
        m = self.match
        if "method" in m and req["method"] != m["method"]:
            return None
        if "path_contains" in m and m["path_contains"] not in req["path"]:
            return None
        if "ctype" in m and m["ctype"] not in (req.get("ctype") or ""):
            return None
        if "watch" in m and bool(req["query"].get("watch")) != m["watch"]:
            return None
        if "after" in m and req["t_global"] < m["after"]:
            return None
        if "payload_contains" in m and m["payload_contains"] not in repr(req.get("payload")):
            return None
        self.count += 1
        if "nth" in m and self.count != m["nth"]:
            return None
        if self.fired >= self.times:
            return None
        self.fired += 1
        return _mk_fault(self.fault)


def build_registry(sc: dict, obs: observe.Observer) -> Any:
    import kopf
    reg = kopf.OperatorRegistry()
    for h in sc.get("handlers", []):
        kind = h["kind"]
        opts = dict(h.get("opts", {}))
        hid = h["id"]
        if "errors" in opts and isinstance(opts["errors"], str):
            opts["errors"] = kopf.ErrorsMode[opts["errors"].upper()]
        for f in ("labels", "annotations"):
            if f in opts:
                opts[f] = {k: (kopf.PRESENT if v == "__PRESENT__" else kopf.ABSENT if v == "__ABSENT__" else v)
                           for k, v in opts[f].items()}
        for f in ("value", "old", "new"):
            if opts.get(f) == "__PRESENT__":
                opts[f] = kopf.PRESENT
            elif opts.get(f) == "__ABSENT__":
                opts[f] = kopf.ABSENT
        fn = obs.make_handler(h)
        res = h.get("resource", "kopfexamples")
        if kind in ("startup", "cleanup"):
            getattr(kopf.on, kind)(id=hid, registry=reg, **opts)(fn)
        elif kind == "daemon":
            kopf.daemon(res, id=hid, registry=reg, **opts)(fn)
        elif kind == "timer":
            kopf.timer(res, id=hid, registry=reg, **opts)(fn)
        elif kind == "index":
            kopf.index(res, id=hid, registry=reg, **opts)(fn)
        elif kind == "event":
            kopf.on.event(res, id=hid, registry=reg, **opts)(fn)
        elif kind == "field":
            kopf.on.field(res, id=hid, registry=reg, **opts)(fn)
        else:
            getattr(kopf.on, kind)(res, id=hid, registry=reg, **opts)(fn)
    return reg


class Sim:
    """Live state of one scenario run (cluster, operators, observer)."""

    def __init__(self, sc: dict):
        self.sc = sc
        self.rng = random.Random(sc.get("seed", 0))
        random.seed(sc.get("seed", 0))
        kex = fakeapi.ResourceDef("kopf.dev", "v1", "kopfexamples", "KopfExample", namespaced=True, shortnames=("kex",),
                                  subresources=("status",) if sc.get("status_subresource") else ())
        extra = []
        if sc.get("peering"):
            extra.append(fakeapi.CLUSTER_PEERING)
        self.kex = kex
        self.cluster = fakeapi.Cluster([fakeapi.NAMESPACES, fakeapi.CRDS, kex] + extra)
        self.obs = observe.Observer(self)
        self.ops: dict[str, runner.Operator] = {}
        self.registry = build_registry(sc, self.obs)
        self.t_base = 0.0
        self.marks: list[dict] = []
        ed = sc.get("echo_delay") or {}
        self._echo_default = float(ed.get("default", 0.0))
        self._echo_rules = list(ed.get("rules", []))
        self.cluster.echo_delay = self._echo_delay
        for spec in sc.get("faults", []):
            self.cluster.fault_rules.append(FaultRule(spec))
        self.cluster.before_request.append(self._stamp)
        self.slips: list[dict] = list(sc.get("slips", []))
        if self.slips:
            self.cluster.before_request.append(self._slip)

    def now(self) -> float:
        return simloop.WALL.now_s()

    def _stamp(self, req: dict) -> None:
        req["t_global"] = self.now()

    def _echo_delay(self, w: fakeapi.Watch, etype: str, body: dict) -> float:
        if w.res.key != self.kex.key:
            return 0.0
        for rule in self._echo_rules:
            nth, et, delay = rule
            if et is not None and et != etype:
                continue
            if nth is not None:
                n = len(self.cluster.log[self.kex.key])
                if n != nth:
                    continue
            return float(delay)
        return self._echo_default

    def _slip(self, req: dict) -> None:
        """A foreign write placed right before the n-th matching request of the operator."""
        for s in self.slips:
            if s.get("done"):
                continue
            if s.get("method", "PATCH") != req["method"] or s.get("path_contains", "kopfexamples/") not in req["path"]:
                continue
            if "ctype" in s and s["ctype"] not in (req.get("ctype") or ""):
                continue
            s["seen"] = s.get("seen", 0) + 1
            if s["seen"] == s.get("nth", 1):
                s["done"] = True
                self.apply_op(s["op"])

    def mark(self, what: str, **kw: Any) -> None:
        self.marks.append({"t": self.now(), "what": what, **kw})

    def settings(self) -> Any:
        s = runner.default_settings(**self.sc.get("settings", {}))
        return s

    async def start_operator(self, name: str = "op", **kw: Any) -> runner.Operator:
        import kopf
        lifecycle = self.sc.get("lifecycle")
        if lifecycle:
            kw["lifecycle"] = getattr(kopf.lifecycles, lifecycle)
        opkw = dict(self.sc.get("operator_kwargs", {}))
        opkw.update(kw)
        op = runner.Operator(self.cluster, self.registry, self.settings(), identity=name, **opkw)
        self.ops[name] = op
        self.obs.incarnation_started(op)
        await op.start()
        self.mark("start", op=name, inc=op.n)
        return op

    def apply_op(self, op: list) -> None:
        c, kex = self.cluster, self.kex
        kind, args = op[0], op[1:]
        ns = "ns"
        if kind == "create":
            name, body = args[0], (args[1] if len(args) > 1 else {"spec": {"x": 0}})
            if c.get(kex, ns, name) is None:
                c.create_raw(kex, ns, name, body)
        elif kind == "edit":
            c.edit(kex, ns, args[0], args[1])
        elif kind == "delete":
            c.delete(kex, ns, args[0])
        elif kind == "force_delete":      # strip all finalizers and delete at once
            c.mutate(kex, ns, args[0], lambda b: b["metadata"].pop("finalizers", None))
            c.delete(kex, ns, args[0])
        elif kind == "recreate":          # delete (forcibly) and create a new object under the same name
            if c.get(kex, ns, args[0]) is not None:
                c.mutate(kex, ns, args[0], lambda b: b["metadata"].pop("finalizers", None))
                c.delete(kex, ns, args[0])
            c.create_raw(kex, ns, args[0], args[1] if len(args) > 1 else {"spec": {"x": 0}})
        elif kind == "fins":              # foreign finalizer edit: set the list of foreign finalizers, keep kopf's own in place
            own = "kopf.zalando.org/KopfFinalizerMarker"

            def f(b: dict, new: list = args[1]) -> None:
                cur = b["metadata"].get("finalizers", [])
                out = list(new[: args[2] if len(args) > 2 else len(new)])
                if own in cur:
                    out.append(own)
                out += list(new[args[2]:]) if len(args) > 2 else []
                b["metadata"]["finalizers"] = out
            c.mutate(kex, ns, args[0], f)
        elif kind == "strip_own_finalizer":
            own = "kopf.zalando.org/KopfFinalizerMarker"
            c.mutate(kex, ns, args[0], lambda b: b["metadata"].__setitem__(
                "finalizers", [x for x in b["metadata"].get("finalizers", []) if x != own]))
        elif kind == "compact":
            c.compact(kex)
        elif kind == "break":             # break watch streams: eof | conn | error | 410 | garbage
            c.break_watches(kex, args[0] if args else "eof")
        elif kind == "http410":
            c.http_410 = bool(args[0]) if args else True
        else:
            raise ValueError(f"unknown cluster op {kind}")
        self.mark("op", op=op)

    async def run(self) -> dict:
        sc = self.sc
        for o in sc.get("objects", []):
            self.cluster.create_raw(self.kex, "ns", o["name"], o.get("body", {"spec": {"x": 0}}))
        timeline = sorted(sc.get("timeline", []), key=lambda e: e[0])
        if not sc.get("no_autostart"):
            await self.start_operator("op")
        for ev in timeline:
            t, kind, args = ev[0], ev[1], ev[2:]
            await self.sleep_until(t)
            if kind == "stop":
                name = args[0] if args else "op"
                op = self.ops.get(name)
                if op is not None and op.alive:
                    r = await op.stop()
                    self.mark("stopped", op=name, inc=op.n, result=repr(r))
            elif kind == "kill":
                name = args[0] if args else "op"
                op = self.ops.get(name)
                if op is not None and op.alive:
                    op.kill()
                    self.obs.incarnation_killed(op)
                    self.mark("killed", op=name, inc=op.n)
            elif kind == "start":
                name = args[0] if args else "op"
                kw = args[1] if len(args) > 1 else {}
                old = self.ops.get(name)
                if old is None or not old.alive or old.killed:
                    await self.start_operator(name, **kw)
            else:
                self.apply_op([kind, *args])
        await self.sleep_until(float(sc.get("end", 60.0)))
        self.mark("end")
        for name, op in self.ops.items():
            if op.alive and not op.killed:
                r = await op.stop()
                self.mark("stopped", op=name, inc=op.n, result=repr(r), final=True)
        return self.obs.trace()

    async def sleep_until(self, t: float) -> None:
        d = t - self.now()
        if d > 0:
            await asyncio.sleep(d)


def run_scenario(sc: dict, wall_limit: float = 60.0) -> dict:
    """Run one scenario on a fresh SimLoop in this process. A stall kills the process (exit 2 from
    faulthandler): use `pool.run_many` to run scenarios in subprocesses when stalls are possible."""
    if not all(simloop.dyadic(e[0]) for e in sc.get("timeline", [])):
        raise ValueError("non-dyadic time in the scenario")
    sim_holder: dict[str, Any] = {}

    async def main() -> dict:
        sim = Sim(copy.deepcopy(sc))
        sim_holder["sim"] = sim
        with observe.installed(sim.obs):
            return await sim.run()

    try:
        return simloop.run_sim(main, wall_limit=wall_limit)
    except (simloop.SimDeadlock, simloop.SimStall) as e:
        sim = sim_holder.get("sim")
        tr = sim.obs.trace() if sim is not None else {}
        tr["sim_error"] = f"{type(e).__name__}: {e}"
        return tr
