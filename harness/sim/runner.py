"""Operator incarnations on the SimLoop: start, graceful stop, kill (abandon), several operators.

`all_tasks` of kopf is narrowed to tasks of the same incarnation (contextvar), because
`run_tasks` cancels *every* task created after the operator started — in a simulation those
include the scenario's own tasks and other operators.
"""
from __future__ import annotations

import asyncio
import concurrent.futures
import contextvars
import logging
from typing import Any

from . import fakeapi, simloop

_incarnation: contextvars.ContextVar[int] = contextvars.ContextVar("verif_incarnation", default=0)
_counter = 0
_patched = False


class InlineExecutor(concurrent.futures.Executor):
    """Runs sync handlers inline on the loop thread: no real thread competes with virtual time."""

    def submit(self, fn: Any, /, *args: Any, **kwargs: Any) -> concurrent.futures.Future:  # type: ignore[override]
        f: concurrent.futures.Future = concurrent.futures.Future()
        try:
            f.set_result(fn(*args, **kwargs))
        except BaseException as e:  # noqa: BLE001
            f.set_exception(e)
        return f


def _patch_kopf() -> None:
    global _patched
    if _patched:
        return
    _patched = True
    from kopf._cogs.aiokits import aiotasks

    async def all_tasks(*, ignored: Any = frozenset()) -> Any:
        me = _incarnation.get()
        cur = asyncio.current_task()
        out = set()
        for t in asyncio.all_tasks():
            if t is cur or t in ignored:
                continue
            try:
                if t.get_context().get(_incarnation, 0) != me:
                    continue
            except Exception:
                continue
            out.add(t)
        return out

    aiotasks.all_tasks = all_tasks  # type: ignore[assignment]
    import signal
    signal.pthread_kill = lambda *a, **k: None  # type: ignore[assignment]  # never SIGKILL the harness thread
    simloop.install_wall_clock()
    logging.getLogger("kopf").setLevel(logging.CRITICAL)
    logging.getLogger("asyncio").setLevel(logging.CRITICAL)


def default_settings(**over: Any) -> Any:
    from kopf._cogs.configs import configuration
    s = configuration.OperatorSettings()
    s.process.ultimate_exiting_timeout = None
    s.posting.enabled = False
    s.execution.executor = InlineExecutor()
    s.networking.error_backoffs = (1, 1, 2)
    s.watching.server_timeout = 512.0
    s.watching.client_timeout = 1024.0
    for path, v in over.items():
        obj = s
        parts = path.split(".")
        for p in parts[:-1]:
            obj = getattr(obj, p)
        setattr(obj, parts[-1], v)
    return s


class Operator:
    """One incarnation of a real `kopf.operator()` against a fake cluster."""

    def __init__(self, cluster: fakeapi.Cluster, registry: Any, settings: Any = None, identity: str = "op",
                 **kwargs: Any):
        _patch_kopf()
        global _counter
        _counter += 1
        self.n = _counter
        self.cluster = cluster
        self.registry = registry
        self.settings = settings if settings is not None else default_settings()
        self.identity = identity
        self.kwargs = kwargs
        self.session = fakeapi.FakeSession(cluster, identity=f"{identity}#{self.n}")
        self.stop_flag: asyncio.Event | None = None
        self.ready_flag: asyncio.Event | None = None
        self.task: asyncio.Task | None = None
        self.killed = False
        self.memories: Any = None
        self.result: Any = None

    async def start(self, wait_ready: bool = False) -> None:
        import kopf
        from kopf._cogs.structs import credentials
        from kopf._core.reactor import inventory
        from kopf._core.engines import peering
        self.stop_flag = asyncio.Event()
        self.ready_flag = asyncio.Event()
        self.memories = inventory.ResourceMemories()
        vault = credentials.Vault({"fake": credentials.AiohttpSession(
            aiohttp_session=self.session, server="http://fake", default_namespace="default")})  # type: ignore[arg-type]
        kw = dict(clusterwide=True, standalone=True)
        kw.update(self.kwargs)
        if "priority" in kw or "peering_name" in kw:
            kw.pop("standalone", None) if self.kwargs.get("standalone") is None else None

        ctx = contextvars.copy_context()

        def _spawn() -> asyncio.Task:
            _incarnation.set(self.n)
            return asyncio.get_running_loop().create_task(kopf.operator(
                registry=self.registry, settings=self.settings, vault=vault, memories=self.memories,
                identity=peering.Identity(self.identity), stop_flag=self.stop_flag, ready_flag=self.ready_flag, **kw),
                name=f"operator-{self.identity}-{self.n}")

        self.task = ctx.run(_spawn)
        if wait_ready:
            await self.ready_flag.wait()

    async def stop(self, timeout: float = 3600.0) -> Any:
        """Graceful stop: raise the stop flag and wait for `operator()` to return."""
        assert self.task is not None and self.stop_flag is not None
        self.stop_flag.set()
        try:
            await asyncio.wait_for(asyncio.shield(self.task), timeout)
        except asyncio.TimeoutError:
            self.result = "stop-timeout"
            return self.result
        except BaseException as e:  # noqa: BLE001
            self.result = e
            return e
        self.result = None
        return None

    def kill(self) -> None:
        """Simulated SIGKILL: the session dies, tasks are cancelled, the incarnation is abandoned
        (never awaited on the scenario's timeline)."""
        self.killed = True
        self.session.kill()
        if self.task is not None and not self.task.done():
            for t in asyncio.all_tasks():
                try:
                    if t.get_context().get(_incarnation, 0) == self.n and not t.done():
                        t.cancel()
                except Exception:
                    pass

    @property
    def alive(self) -> bool:
        return self.task is not None and not self.task.done()
