"""Subprocess worker: reads scenarios (one JSON per line) on stdin, writes one result line each.
A stall (non-suspending spin) makes faulthandler dump all stacks to stderr and exit; the parent
then knows which scenario was running (the first one without a result line)."""
from __future__ import annotations

import json
import sys


def main() -> None:
    from harness.sim import scenario
    wall = float(sys.argv[1]) if len(sys.argv) > 1 else 30.0
    for line in sys.stdin:
        line = line.strip()
        if not line:
            continue
        item = json.loads(line)
        sys.stderr.write(f"@@BEGIN {item['i']}\n")
        sys.stderr.flush()
        try:
            run = scenario.run_scenario
            if isinstance(item["sc"], dict) and item["sc"].get("runner"):
                # optional property-specific runner "package.module:function" (same signature as
                # run_scenario): extra instrumentation / timeline ops around the shared Sim
                import importlib
                modname, fname = item["sc"]["runner"].split(":")
                run = getattr(importlib.import_module(modname), fname)
            tr = run(item["sc"], wall_limit=wall)
            out = {"i": item["i"], "trace": tr}
        except Exception as e:  # noqa: BLE001
            import traceback
            out = {"i": item["i"], "harness_error": f"{type(e).__name__}: {e}", "tb": traceback.format_exc()[-3000:]}
        sys.stdout.write(json.dumps(out, default=repr) + "\n")
        sys.stdout.flush()


if __name__ == "__main__":
    main()
