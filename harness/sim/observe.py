"""Observation layer: scripted handlers and attribute-level instrumentation of kopf (no source hooks).

Records, for one scenario run:
 * `calls`   — every handler/daemon/timer invocation (time, incarnation, object uid/rv, retry, reason, outcome);
 * `cycles`  — every `process_resource_event` of the watched kind: the event, memory flags before/after,
               the detected cause, handlers invoked, what `application.apply` was given and returned;
 * `requests`, `history`, `marks` — from the fake cluster and the scenario runner.
"""
from __future__ import annotations

import asyncio
import contextlib
import contextvars
import copy
from typing import Any, Iterator

from . import runner

_cycle_var: contextvars.ContextVar[dict | None] = contextvars.ContextVar("verif_cycle", default=None)


class _CycleAccessor:
    """The current cycle record, but only inside the worker task that runs the cycle (daemon/timer
    tasks spawned in a cycle inherit the context variable; they must not see the record)."""

    def get(self) -> dict | None:
        rec = _cycle_var.get()
        if rec is None or rec.get("_task") is not asyncio.current_task():
            return None
        return rec

    def set(self, rec: dict) -> Any:
        rec["_task"] = asyncio.current_task()
        return _cycle_var.set(rec)

    def reset(self, tok: Any) -> None:
        rec = _cycle_var.get()
        if rec is not None:
            rec.pop("_task", None)
        _cycle_var.reset(tok)


_cycle = _CycleAccessor()


class _NotWritten:
    """Placeholder for `memory.fully_handled_once` during one `process_changing_cause` pass: told from a written value
    by identity, but it READS like the value it stands for (white-box review C03 m3: the former always-falsy placeholder
    hid a change of the code under test that reads the flag inside the pass)."""
    def __init__(self, value: Any = False) -> None:
        self.value = bool(value)

    def __bool__(self) -> bool:
        return self.value

    def __eq__(self, other: Any) -> bool:
        return bool(other) == self.value if isinstance(other, (bool, _NotWritten)) else NotImplemented

    def __hash__(self) -> int:
        return hash(self.value)

    def __repr__(self) -> str:
        return f"<not written: {self.value}>"


_NOT_WRITTEN = _NotWritten()


def _jsonable(x: Any, depth: int = 0) -> Any:
    if depth > 12:
        return repr(x)
    if x is None or isinstance(x, (bool, int, float, str)):
        return x
    if isinstance(x, dict) or hasattr(x, "items"):
        try:
            return {str(k): _jsonable(v, depth + 1) for k, v in x.items()}
        except Exception:
            return repr(x)
    if isinstance(x, (list, tuple, set, frozenset)):
        return [_jsonable(v, depth + 1) for v in x]
    return repr(x)


TICKS_PER_S = 64


def to_ticks(seconds: float) -> int:
    x = seconds * TICKS_PER_S
    r = round(x)
    if abs(x - r) > 1e-6:
        raise ValueError(f"time {seconds!r} is not a multiple of 1/{TICKS_PER_S} s")
    return int(r)


def iso_to_ticks(val: str | None) -> int | None:
    if val is None:
        return None
    import iso8601
    from . import simloop
    return to_ticks((iso8601.parse_date(val, default_timezone=None) - simloop.EPOCH).total_seconds())


def record_to_json(rec: Any) -> dict | None:
    """A kopf ProgressRecord (as fetched) → the model's `Rec` fields (times in ticks since EPOCH)."""
    if rec is None:
        return None
    return {"started": iso_to_ticks(rec.get("started")), "delayed": iso_to_ticks(rec.get("delayed")),
            "purpose": rec.get("purpose") or None, "retries": int(rec.get("retries") or 0),
            "success": bool(rec.get("success")), "failure": bool(rec.get("failure")),
            "subrefs": sorted(rec.get("subrefs") or [])}


class Observer:
    def __init__(self, sim: Any):
        self.sim = sim
        self.calls: list[dict] = []
        self.cycles: list[dict] = []
        self.counters: dict[tuple[str, str], int] = {}
        self.dead: set[int] = set()
        self.incs: list[dict] = []

    # ---- incarnations ---------------------------------------------------------------------------
    def incarnation_started(self, op: Any) -> None:
        self.incs.append({"inc": op.n, "name": op.identity, "t": self.sim.now()})

    def incarnation_killed(self, op: Any) -> None:
        self.dead.add(op.n)

    def _muted(self) -> bool:
        return runner._incarnation.get() in self.dead

    # ---- scripted handlers ---------------------------------------------------------------------
    def make_handler(self, h: dict) -> Any:
        kind = h["kind"]
        if kind == "daemon":
            return self._make_daemon(h)
        if kind in ("startup", "cleanup"):
            return self._make_activity(h)
        if kind == "index":
            return self._make_index(h)
        return self._make_plain(h)

    def _next_action(self, h: dict, uid: str) -> Any:
        key = (uid, h["id"])
        n = self.counters.get(key, 0)
        self.counters[key] = n + 1
        script = h.get("script", [])
        return (script[n] if n < len(script) else h.get("default", "ok")), n

    async def _perform(self, action: Any, rec: dict, kwargs: dict) -> Any:
        import kopf
        while isinstance(action, list) and action and action[0] in ("sleep", "patch"):
            if action[0] == "sleep":
                await asyncio.sleep(float(action[1]))
                action = action[2] if len(action) > 2 else "ok"
            else:
                p = kwargs.get("patch")
                if p is not None:
                    for k, v in action[1].items():
                        if isinstance(v, dict):
                            p.setdefault(k, {}).update(copy.deepcopy(v))
                        else:
                            p[k] = v
                action = action[2] if len(action) > 2 else "ok"
        name = action[0] if isinstance(action, list) else action
        rec["outcome"] = name
        rec["t_end"] = self.sim.now()
        if name == "ok":
            return action[1] if isinstance(action, list) and len(action) > 1 else None
        if name == "temp":
            d = action[1] if isinstance(action, list) and len(action) > 1 else None
            rec["delay"] = d
            if d is None:
                raise kopf.TemporaryError("scripted temporary")
            raise kopf.TemporaryError("scripted temporary", delay=d)
        if name == "perm":
            raise kopf.PermanentError("scripted permanent")
        if name == "arb":
            raise ValueError("scripted arbitrary error")
        raise RuntimeError(f"unknown scripted action {action!r}")

    def _base_rec(self, h: dict, kwargs: dict) -> dict:
        body = kwargs.get("body") or {}
        meta = body.get("metadata", {}) if body else {}
        rec = {
            "t": self.sim.now(), "inc": runner._incarnation.get(), "id": h["id"], "kind": h["kind"],
            "uid": meta.get("uid"), "name": meta.get("name"), "rv": meta.get("resourceVersion"),
            "retry": kwargs.get("retry"), "reason": getattr(kwargs.get("reason"), "value", kwargs.get("reason")),
            "marked": bool(meta.get("deletionTimestamp")),
            "finalizers": list(meta.get("finalizers", []) or []),
        }
        if "diff" in kwargs and kwargs["diff"] is not None:
            rec["diff"] = _jsonable(list(kwargs["diff"]))
        if "old" in kwargs:
            rec["old"] = _jsonable(kwargs["old"])
        if "new" in kwargs:
            rec["new"] = _jsonable(kwargs["new"])
        if h.get("record_body"):
            rec["body"] = _jsonable(dict(body))
        if "type" in kwargs and h["kind"] == "event":
            rec["event_type"] = kwargs.get("type")
        return rec

    def _make_plain(self, h: dict) -> Any:
        subs = h.get("sub", [])

        async def handler(**kwargs: Any) -> Any:
            if self._muted():
                raise asyncio.CancelledError()
            rec = self._base_rec(h, kwargs)
            action, n = self._next_action(h, rec["uid"] or "")
            rec["n"] = n
            self.calls.append(rec)
            cyc = _cycle.get()
            # kopf's own id of the handler being invoked (differs from the scenario id for field handlers:
            # "f0" -> "f0/spec.x", and so for their sub-handlers) — additive keys `hid`/`call`
            real_id = None
            try:
                from kopf._core.actions import execution as _execution
                real_id = str(_execution.handler_var.get().id)
            except Exception:  # noqa: BLE001
                real_id = None
            if real_id is not None:
                rec["hid"] = real_id
            if cyc is not None and h["kind"] in ("create", "update", "delete", "resume", "field", "sub"):
                cyc["invoked"].append({"id": h["id"], "retry": rec["retry"], "hid": real_id or h["id"],
                                       "call": len(self.calls) - 1})
            elif cyc is not None and h["kind"] == "event":
                cyc.setdefault("events_invoked", []).append(h["id"])
            if subs and (action == "ok" or action == ["ok"]):
                import kopf
                # how the parent registers its sub-handlers: "execute" (default: `kopf.execute(fns={id: fn})`),
                # "decorator" (`@kopf.subhandler(id=…)` inside the parent, run implicitly when it returns),
                # "register" (`kopf.register(fn, id=…)`, likewise implicit), "decorator_execute" (decorators, then
                # an explicit argument-less `kopf.execute()`)
                mode = h.get("sub_mode", "execute")
                fns = {}
                for s in subs:
                    sh = {"kind": "sub", "id": f"{h['id']}/{s['id']}", "script": s.get("script", []), "default": s.get("default", "ok")}
                    fns[s["id"]] = self._make_plain(sh)
                if cyc is not None:
                    # what the parent registered in this invocation (independent of what kopf then selects)
                    cyc.setdefault("sub_registered", []).append({
                        "parent": h["id"], "parent_hid": real_id or h["id"], "mode": mode, "t": self.sim.now(),
                        "call": len(self.calls) - 1, "subs": [s["id"] for s in subs]})
                rec["outcome"] = "subhandlers"
                rec["sub_mode"] = mode
                if mode == "execute":
                    await kopf.execute(fns=fns)
                elif mode in ("decorator", "decorator_execute"):
                    for sid, sfn in fns.items():
                        kopf.subhandler(id=sid)(sfn)
                    if mode == "decorator_execute":
                        await kopf.execute()
                elif mode == "register":
                    for sid, sfn in fns.items():
                        kopf.register(sfn, id=sid)
                else:
                    raise RuntimeError(f"unknown sub_mode {mode!r}")
                # (with the implicit modes the sub-handlers run after this function returns: a children-retry
                # then surfaces in kopf, not here; the call record keeps "ok" = the parent's own function)
                rec["outcome"] = "ok"
                rec["t_end"] = self.sim.now()
                return None
            return await self._perform(action, rec, kwargs)

        handler.__name__ = handler.__qualname__ = h["id"].replace("/", "_")
        return handler

    def _make_activity(self, h: dict) -> Any:
        async def activity(**kwargs: Any) -> Any:
            if self._muted():
                raise asyncio.CancelledError()
            rec = {"t": self.sim.now(), "inc": runner._incarnation.get(), "id": h["id"], "kind": h["kind"],
                   "uid": None, "retry": kwargs.get("retry")}
            action, n = self._next_action(h, f"inc{rec['inc']}")
            rec["n"] = n
            self.calls.append(rec)
            return await self._perform(action, rec, kwargs)
        activity.__name__ = activity.__qualname__ = h["id"]
        return activity

    def _make_index(self, h: dict) -> Any:
        async def indexer(**kwargs: Any) -> Any:
            rec = self._base_rec(h, kwargs)
            action, n = self._next_action(h, rec["uid"] or "")
            rec["n"] = n
            self.calls.append(rec)
            return await self._perform(action, rec, kwargs)
        indexer.__name__ = indexer.__qualname__ = h["id"]
        return indexer

    def _make_daemon(self, h: dict) -> Any:
        d = h.get("daemon", {})
        mode, after, poll = d.get("mode", "obey"), float(d.get("after", 8.0)), float(d.get("poll", 0.5))
        max_ignored = int(d.get("max_ignored", 3))

        async def daemon(**kwargs: Any) -> Any:
            if self._muted():
                raise asyncio.CancelledError()
            stopped = kwargs["stopped"]
            rec = self._base_rec(h, kwargs)
            rec["mode"] = mode
            key = (rec["uid"] or "", h["id"])
            rec["n"] = self.counters.get(key, 0)
            self.counters[key] = rec["n"] + 1
            self.calls.append(rec)
            ignored = 0
            try:
                if mode == "exit":
                    await asyncio.sleep(after)
                    rec["outcome"] = "exited-on-its-own"
                    return None
                if mode == "obey":
                    while not stopped:
                        await stopped.wait(poll)
                    rec["outcome"] = "obeyed-flag"
                    rec["stop_reason"] = repr(getattr(stopped, "reason", None))
                    return None
                while True:
                    try:
                        await asyncio.sleep(2.0 ** 20)
                    except asyncio.CancelledError:
                        if mode == "cancel" or ignored >= max_ignored:
                            rec["outcome"] = "cancelled"
                            rec["stop_reason"] = repr(getattr(stopped, "reason", None))
                            rec["flag_was_set"] = bool(stopped)
                            raise
                        ignored += 1
                        rec["ignored_cancellations"] = ignored
            finally:
                rec["t_end"] = self.sim.now()
                rec["muted_end"] = self._muted()

        daemon.__name__ = daemon.__qualname__ = h["id"]
        return daemon

    # ---- instrumentation of kopf internals ------------------------------------------------------
    def _mem_snapshot(self, memories: Any, raw_body: dict) -> dict | None:
        try:
            uid = raw_body.get("metadata", {}).get("uid") or ""
            m = memories._items.get(uid)
            if m is None:
                return None
            dm = m.daemons_memory
            return {
                "noticed_by_listing": m.noticed_by_listing, "fully_handled_once": m.fully_handled_once,
                "resumed_handlers": sorted(map(str, getattr(m, "resumed_handlers", ()) or ())),
                "remaining_patch": None if m.remaining_patch is None else
                {"fields": _jsonable(dict(m.remaining_patch)), "fns": len(m.remaining_patch.fns)},
                "forever_stopped": sorted(map(str, dm.forever_stopped)),
                "running_daemons": sorted(map(str, dm.running_daemons)),
                "throttled": m.error_throttler.active_until is not None,
            }
        except Exception as e:  # noqa: BLE001
            return {"error": repr(e)}

    def trace(self) -> dict:
        c = self.sim.cluster
        reqs = []
        for r in c.requests:
            rr = {k: v for k, v in r.items() if k != "watch"}
            reqs.append(_jsonable(rr))
        hist = {f"{k[0][2]}/{k[1]}/{k[2]}": _jsonable(v) for k, v in c.history.items()}
        return {"calls": self.calls, "cycles": self.cycles, "requests": reqs, "history": hist,
                "marks": _jsonable(self.sim.marks), "incarnations": self.incs, "final_rv": c.rv,
                "final_objects": {f"{k[0][2]}/{k[1]}/{k[2]}": _jsonable(v) for k, v in c.objects.items()}}


@contextlib.contextmanager
def installed(obs: Observer) -> Iterator[None]:
    """Patch module attributes of kopf for the duration of one scenario."""
    from kopf._core.actions import application
    from kopf._core.intents import causes
    from kopf._core.reactor import processing

    orig_pre = processing.process_resource_event
    orig_apply = application.apply
    orig_detect = causes.detect_changing_cause
    sim = obs.sim

    async def process_resource_event(**kw: Any) -> Any:
        raw_event = kw["raw_event"]
        resource = kw.get("resource")
        if getattr(resource, "plural", None) != sim.kex.plural or runner._incarnation.get() in obs.dead:
            return await orig_pre(**kw)
        raw_body = raw_event["object"]
        rec: dict[str, Any] = {
            "i": len(obs.cycles), "inc": runner._incarnation.get(), "t0": sim.now(),
            "loop_t0": asyncio.get_running_loop().time(),
            "event_type": raw_event["type"], "uid": raw_body.get("metadata", {}).get("uid"),
            "name": raw_body.get("metadata", {}).get("name"),
            "rv": raw_body.get("metadata", {}).get("resourceVersion"),
            "body": copy.deepcopy(raw_body), "consistency_time": kw.get("consistency_time"),
            "mem_before": obs._mem_snapshot(kw["memories"], raw_body),
            "invoked": [], "cause": None, "apply": None, "result_rv": None, "error": None,
        }
        obs.cycles.append(rec)
        tok = _cycle.set(rec)
        try:
            out = await orig_pre(**kw)
            rec["result_rv"] = out
            return out
        except BaseException as e:  # noqa: BLE001
            rec["error"] = type(e).__name__
            raise
        finally:
            _cycle.reset(tok)
            rec["t1"] = sim.now()
            rec["mem_after"] = obs._mem_snapshot(kw["memories"], raw_body)

    async def apply(**kw: Any) -> Any:
        rec = _cycle.get()
        info = None
        if rec is not None:
            p = kw["patch"]
            info = {"patch": _jsonable(dict(p)), "fns": [getattr(getattr(f, "func", f), "__name__", repr(f)) for f in p.fns],
                    "delays": list(kw.get("delays") or []), "t": sim.now()}
            rec["apply"] = info
        out = await orig_apply(**kw)
        if info is not None:
            applied, rv, remaining = out
            info["applied"] = applied
            info["rv"] = rv
            info["remaining_fns"] = None if remaining is None else len(remaining.fns)
            info["t_end"] = sim.now()
        return out

    def detect_changing_cause(**kw: Any) -> Any:
        cause = orig_detect(**kw)
        rec = _cycle.get()
        if rec is not None:
            rec["cause"] = {"reason": cause.reason.value, "initial": bool(cause.initial),
                            "old_absent": kw.get("old") is None, "diff": _jsonable(list(kw.get("diff") or [])),
                            "new": _jsonable(kw.get("new"))}
        return cause

    from kopf._core.actions import execution
    from .. import rfc as _rfc
    orig_pcc = processing.process_changing_cause
    orig_exec = execution.execute_handlers_once
    depth: contextvars.ContextVar[int] = contextvars.ContextVar("verif_exec_depth", default=0)

    def _safe_match(h: Any, cause: Any) -> bool:
        from kopf._core.intents import registries as _reg
        try:
            return bool(_reg.match(handler=h, cause=cause))
        except Exception:
            return False

    def _fetch_all(storage: Any, body: Any, ids: Any) -> dict:
        out = {}
        for i in ids:
            try:
                out[str(i)] = record_to_json(storage.fetch(key=i, body=body))
            except Exception as e:  # noqa: BLE001
                out[str(i)] = {"error": repr(e)}
        return out

    async def process_changing_cause(**kw: Any) -> Any:
        rec = _cycle.get()
        if rec is None:
            return await orig_pcc(**kw)
        cause, registry, settings = kw["cause"], kw["registry"], kw["settings"]
        storage = settings.persistence.progress_storage
        owned = [h for h in registry._changing.get_resource_handlers(resource=cause.resource)]
        selected = [h for h in registry._changing.get_handlers(cause=cause)]
        # /repo 6c4463d: resuming handlers that already reached a final outcome for this object in this
        # process (in-memory `resumed_handlers`) are not selected again while the cycle is open
        resumed = set(getattr(kw.get("memory"), "resumed_handlers", ()) or ())
        selected = [h for h in selected if not (getattr(h, "initial", None) and h.id in resumed)]
        P = _fetch_all(storage, cause.body, [h.id for h in owned])
        subs = sorted({s for r in P.values() if r for s in r.get("subrefs", [])})
        P.update(_fetch_all(storage, cause.body, subs))
        info = {"reason": cause.reason.value, "owned": [str(h.id) for h in owned], "selected": [str(h.id) for h in selected],
                "limits": {str(h.id): [None if h.timeout is None else to_ticks(h.timeout), h.retries] for h in owned},
                "matched": [str(h.id) for h in owned if _safe_match(h, cause)],
                "decls": [{"id": str(h.id), "gate": {"reason": h.reason.value if h.reason is not None else None,
                                                     "initial": bool(h.initial), "deleted": bool(h.deleted)}} for h in owned],
                "P": P, "now": to_ticks(sim.now()), "outcomes": None, "now1": None, "storage": storage,
                "body": cause.body}
        rec["pcc"] = info
        # whether THIS pass closes the cycle (`done or skip`): the flag is only written inside, never read there
        mem_ = kw["memory"]
        # (a falsy sentinel instead of a plain False, so that a write of False by the code under test — the flag
        # cleared again by a pass — is told from "not written" and is NOT repaired here: white-box review C05 m6)
        prev_flag = mem_.fully_handled_once
        placeholder = _NotWritten(prev_flag)      # reads like the flag itself; a write replaces it
        mem_.fully_handled_once = placeholder
        try:
            out = await orig_pcc(**kw)
        finally:
            written = mem_.fully_handled_once
            info["closed"] = bool(written) and written is not placeholder
            if written is placeholder:
                mem_.fully_handled_once = prev_flag
            else:
                info["flag_written"] = bool(written)
                mem_.fully_handled_once = bool(written)
        info["delays"] = [float(d) for d in out]
        info["memory_fully_handled_once"] = kw["memory"].fully_handled_once
        return out

    async def execute_handlers_once(*a: Any, **kw: Any) -> Any:
        rec = _cycle.get()
        d = depth.get()
        tok = depth.set(d + 1)
        sp = None
        if rec is not None and d == 1 and rec.get("pcc") is not None and kw.get("handlers") and kw.get("state") is not None:
            # one sub-pass (`subhandling.execute`) of the parent handler being invoked right now
            try:
                parent = execution.handler_var.get()
                st, cause_, settings_ = kw["state"], kw["cause"], kw["settings"]
                sp = {"parent": str(parent.id), "selected": [str(h.id) for h in kw["handlers"]],
                      "known": [str(k) for k in st], "reason": cause_.reason.value,
                      "limits": {str(h.id): [None if h.timeout is None else to_ticks(h.timeout), h.retries] for h in kw["handlers"]},
                      "P": _fetch_all(settings_.persistence.progress_storage, cause_.body, list(st)),
                      "now": to_ticks(sim.now()), "outcomes": None, "now1": None}
                rec["pcc"].setdefault("subpasses", []).append(sp)
            except Exception as e:  # noqa: BLE001
                sp = None
                rec["pcc"].setdefault("subpasses", []).append({"error": repr(e)})
        try:
            out = await orig_exec(*a, **kw)
        finally:
            depth.reset(tok)
        if sp is not None:
            sp["outcomes"] = {
                str(k): {"final": bool(o.final), "delay": None if o.delay is None else to_ticks(o.delay),
                         "error": o.exception is not None, "subrefs": sorted(map(str, o.subrefs))}
                for k, o in out.items()}
            sp["now1"] = to_ticks(sim.now())
        if rec is not None and d == 0 and rec.get("pcc") is not None and rec["pcc"]["outcomes"] is None \
                and kw.get("extra_context") is not None and "default_errors" not in kw:
            rec["pcc"]["outcomes"] = {
                str(k): {"final": bool(o.final), "delay": None if o.delay is None else to_ticks(o.delay),
                         "error": o.exception is not None, "subrefs": sorted(map(str, o.subrefs)),
                         "exc": type(o.exception).__name__ if o.exception is not None else None}
                for k, o in out.items()}
            rec["pcc"]["now1"] = to_ticks(sim.now())
        return out

    orig_apply_inner = apply

    async def apply_with_progress(**kw: Any) -> Any:
        rec = _cycle.get()
        if rec is not None and rec.get("pcc") is not None:
            info = rec["pcc"]
            try:
                patched = _rfc.merge_patch(_jsonable(dict(kw["body"])), _jsonable(dict(kw["patch"])))
                ids = set(info["P"].keys())
                for o in (info["outcomes"] or {}).values():
                    ids.update(o["subrefs"])
                from kopf._cogs.structs import bodies as _bodies
                info["P_after"] = _fetch_all(info["storage"], _bodies.Body(patched), sorted(ids))
                db = kw["settings"].persistence.diffbase_storage
                info["diffbase_in_patch"] = db.fetch(body=_bodies.Body(patched)) != db.fetch(body=kw["body"])
            except Exception as e:  # noqa: BLE001
                info["P_after"] = {"error": repr(e)}
            info.pop("storage", None)
            info.pop("body", None)
        return await orig_apply_inner(**kw)

    processing.process_changing_cause = process_changing_cause  # type: ignore[assignment]
    execution.execute_handlers_once = execute_handlers_once  # type: ignore[assignment]
    processing.process_resource_event = process_resource_event  # type: ignore[assignment]
    application.apply = apply_with_progress  # type: ignore[assignment]
    causes.detect_changing_cause = detect_changing_cause  # type: ignore[assignment]
    try:
        yield
    finally:
        processing.process_resource_event = orig_pre  # type: ignore[assignment]
        application.apply = orig_apply  # type: ignore[assignment]
        processing.process_changing_cause = orig_pcc  # type: ignore[assignment]
        execution.execute_handlers_once = orig_exec  # type: ignore[assignment]
        causes.detect_changing_cause = orig_detect  # type: ignore[assignment]
