"""Deterministic virtual-time asyncio loop + the virtual wall clock shim.

* `SimLoop.time()` is virtual; when nothing is ready the clock jumps to the earliest timer.
* All times used by scenarios must be dyadic rationals (multiples of 2**-10 s): sums are exact.
* `install_wall_clock()` patches the `datetime` module attribute of the kopf modules that read the
  wall clock so that `datetime.datetime.now()` = EPOCH + global virtual time (shared by all
  incarnations and operators of one simulation).
* A loop that has nothing ready, nothing scheduled and no I/O is a deadlock → `SimDeadlock`.
* `run_sim(coro, wall_limit)` runs a coroutine to completion with a wall-clock watchdog
  (faulthandler dump + hard exit code 2 on a stall: a coroutine that spins without suspending
  would otherwise hang the check).
"""
from __future__ import annotations

import asyncio
import datetime as _dt
import faulthandler
import heapq
import os
import selectors
import sys
import types
from typing import Any, Awaitable, Callable

TICK = 2.0 ** -10
EPOCH = _dt.datetime(2030, 1, 1, 0, 0, 0, tzinfo=_dt.timezone.utc)


class SimDeadlock(RuntimeError):
    pass


class SimStall(RuntimeError):
    """More than `max_steps_per_instant` loop iterations without the virtual clock moving."""


class WallClock:
    """The global virtual wall clock; `offset` accumulates across loops (operator restarts)."""

    def __init__(self) -> None:
        self.base = 0.0        # virtual seconds elapsed before the current loop was created
        self.loop: SimLoop | None = None

    def now_s(self) -> float:
        return self.base + (self.loop.vtime if self.loop is not None else 0.0)

    def now(self, tz: Any = None) -> _dt.datetime:
        t = EPOCH + _dt.timedelta(seconds=self.now_s())
        return t if tz is not None else t.replace(tzinfo=None)


WALL = WallClock()


class SimLoop(asyncio.SelectorEventLoop):
    def __init__(self, start: float = 0.0, rng: Any = None, max_steps_per_instant: int = 200_000) -> None:
        super().__init__(selectors.SelectSelector())
        self.vtime = float(start)
        self.rng = rng
        self.iterations = 0
        self._steps_at_instant = 0
        self.max_steps_per_instant = max_steps_per_instant
        self._idle_polls = 0
        self.io_expected = False   # set True when real threads / sockets may wake the loop

    def time(self) -> float:
        return self.vtime

    def add_signal_handler(self, sig: Any, callback: Any, *args: Any) -> None:  # kopf installs SIGINT/SIGTERM
        return None

    def remove_signal_handler(self, sig: Any) -> bool:
        return False

    def _run_once(self) -> None:
        self.iterations += 1
        # drop cancelled timers at the head so that they do not drag the clock
        while self._scheduled and self._scheduled[0]._cancelled:
            h = heapq.heappop(self._scheduled)
            h._scheduled = False
            self._timer_cancelled_count = max(0, self._timer_cancelled_count - 1)
        if not self._ready and not self._stopping:
            if self._scheduled:
                when = self._scheduled[0]._when
                if when > self.vtime:
                    self.vtime = when
                    self._steps_at_instant = 0
            elif not self.io_expected:
                self._idle_polls += 1
                if self._idle_polls > 3:
                    raise SimDeadlock("nothing ready, nothing scheduled, no I/O expected")
        else:
            self._idle_polls = 0
        self._steps_at_instant += 1
        if self._steps_at_instant > self.max_steps_per_instant:
            raise SimStall(f"{self._steps_at_instant} loop iterations at virtual time {self.vtime} without progress")
        super()._run_once()


def dyadic(x: float) -> bool:
    return float(x) * 1024 == int(float(x) * 1024)


class _ShimDateTime(_dt.datetime):
    @classmethod
    def now(cls, tz: Any = None) -> _dt.datetime:  # type: ignore[override]
        return WALL.now(tz)

    @classmethod
    def utcnow(cls) -> _dt.datetime:  # type: ignore[override]
        return WALL.now(None)


def _shim_module() -> types.ModuleType:
    m = types.ModuleType("datetime")
    m.__dict__.update({k: v for k, v in _dt.__dict__.items() if not k.startswith("__")})
    m.datetime = _ShimDateTime  # type: ignore[attr-defined]
    return m


_SHIM = _shim_module()
_WALL_MODULES = [
    "kopf._core.actions.progression", "kopf._core.actions.application", "kopf._core.engines.peering",
    "kopf._cogs.structs.credentials", "kopf._cogs.clients.events", "kopf._core.engines.probing",
]


def install_wall_clock() -> None:
    import importlib
    for name in _WALL_MODULES:
        mod = importlib.import_module(name)
        if getattr(mod, "datetime", None) is not _SHIM:
            mod.datetime = _SHIM  # type: ignore[attr-defined]


def new_loop(rng: Any = None) -> SimLoop:
    """A fresh loop (a new operator incarnation's loop starts near 0 as a real one would);
    the wall clock keeps advancing."""
    if WALL.loop is not None:
        WALL.base += WALL.loop.vtime
    loop = SimLoop(0.0, rng)
    WALL.loop = loop
    return loop


def reset_wall() -> None:
    WALL.base = 0.0
    WALL.loop = None


def run_sim(main: Callable[[], Awaitable[Any]], wall_limit: float = 60.0, loop: SimLoop | None = None) -> Any:
    """Run `main()` on a SimLoop under a wall-clock watchdog. A stall (non-suspending spin) kills the
    process with exit code 2 after dumping all stacks — run risky simulations in a subprocess."""
    own = loop is None
    if loop is None:
        reset_wall()
        loop = new_loop()
    install_wall_clock()
    asyncio.set_event_loop(loop)
    faulthandler.dump_traceback_later(wall_limit, exit=True)
    try:
        return loop.run_until_complete(main())
    finally:
        faulthandler.cancel_dump_traceback_later()
        if own:
            try:
                pending = [t for t in asyncio.all_tasks(loop) if not t.done()]
                for t in pending:
                    t.cancel()
                if pending:
                    loop.run_until_complete(asyncio.gather(*pending, return_exceptions=True))
            except Exception:
                pass
            loop.close()
            asyncio.set_event_loop(None)
