"""Run many scenarios in worker subprocesses (parallel, stall-safe)."""
from __future__ import annotations

import json
import os
import subprocess
import sys
import threading
from concurrent.futures import ThreadPoolExecutor
from pathlib import Path
from typing import Any, Callable, Iterable

ROOT = Path(__file__).resolve().parent.parent.parent


def _run_batch(items: list[tuple[int, dict]], wall: float, results: dict[int, dict]) -> None:
    pending = list(items)
    env = dict(os.environ)
    env["PYTHONPATH"] = f"{ROOT}:{env.get('KOPF_REPO', '/repo')}"
    env["PYTHONHASHSEED"] = "0"
    while pending:
        payload = "".join(json.dumps({"i": i, "sc": sc}) + "\n" for i, sc in pending)
        p = subprocess.run([sys.executable, "-m", "harness.sim.worker", str(wall)], input=payload,
                           capture_output=True, text=True, cwd=str(ROOT), env=env,
                           timeout=wall * (len(pending) + 2) + 120)
        done = set()
        for line in p.stdout.splitlines():
            if line.startswith("{"):
                r = json.loads(line)
                results[r["i"]] = r
                done.add(r["i"])
        rest = [(i, sc) for i, sc in pending if i not in done]
        if not rest:
            return
        if p.returncode == 0 and len(rest) == len(pending):
            for i, _ in rest:
                results[i] = {"i": i, "harness_error": "worker produced no output", "tb": p.stderr[-2000:]}
            return
        # the worker died while running the first unfinished scenario: a stall or a crash
        i0, _sc0 = rest[0]
        tail = p.stderr[p.stderr.rfind(f"@@BEGIN {i0}"):][-6000:]
        results[i0] = {"i": i0, "stall": True, "returncode": p.returncode, "stderr": tail}
        pending = rest[1:]


def run_many(scenarios: list[dict], wall: float = 30.0, jobs: int | None = None, batch: int = 25) -> list[dict]:
    """Returns one result per scenario: {"trace": ...} | {"stall": True, "stderr": ...} | {"harness_error": ...}."""
    jobs = jobs or int(os.environ.get("VERIF_JOBS", "0")) or min(16, os.cpu_count() or 4)
    items = list(enumerate(scenarios))
    batches = [items[k:k + batch] for k in range(0, len(items), batch)]
    results: dict[int, dict] = {}
    with ThreadPoolExecutor(max_workers=jobs) as ex:
        list(ex.map(lambda b: _run_batch(b, wall, results), batches))
    return [results.get(i, {"i": i, "harness_error": "missing"}) for i in range(len(scenarios))]
