"""A stateful, fault-injectable Kubernetes API server, in-process, no sockets.

Plugged into kopf through its public extension point `credentials.AiohttpSession`: `FakeSession`
duck-types the parts of `aiohttp.ClientSession`/`ClientResponse` that kopf's client uses.
Semantics implemented here are part of the trusted base (DESIGN.md §5.3).
"""
from __future__ import annotations

import asyncio
import copy
import json
import urllib.parse
from typing import Any, Callable

import aiohttp

from .. import rfc
from . import simloop

LATENCY = 1.0 / 64


def _status(code: int, reason: str, message: str = "", details: dict | None = None) -> dict:
    st = {"kind": "Status", "apiVersion": "v1", "metadata": {}, "status": "Failure",
          "message": message or reason, "reason": reason, "code": code}
    if details:
        st["details"] = details
    return st


class Fault:
    """One scripted fault for a request: an HTTP status, a connection error before/after the
    server applied the request, or a timeout."""

    def __init__(self, kind: str, status: int = 0, headers: dict | None = None, details: dict | None = None):
        self.kind = kind            # 'status' | 'conn-before' | 'conn-after' | 'timeout'
        self.status = status
        self.headers = headers or {}
        self.details = details

    def __repr__(self) -> str:
        return f"Fault({self.kind},{self.status})"


class ResourceDef:
    def __init__(self, group: str, version: str, plural: str, kind: str, namespaced: bool = True,
                 subresources: tuple[str, ...] = (), verbs: tuple[str, ...] = ("get", "list", "watch", "patch", "create", "delete", "update"),
                 singular: str | None = None, shortnames: tuple[str, ...] = (), categories: tuple[str, ...] = ()):
        self.group, self.version, self.plural, self.kind = group, version, plural, kind
        self.namespaced, self.subresources, self.verbs = namespaced, tuple(subresources), tuple(verbs)
        self.singular = singular or kind.lower()
        self.shortnames, self.categories = tuple(shortnames), tuple(categories)

    @property
    def key(self) -> tuple[str, str, str]:
        return (self.group, self.version, self.plural)

    @property
    def api_version(self) -> str:
        return f"{self.group}/{self.version}" if self.group else self.version


NAMESPACES = ResourceDef("", "v1", "namespaces", "Namespace", namespaced=False)
EVENTS = ResourceDef("", "v1", "events", "Event", namespaced=True)
CRDS = ResourceDef("apiextensions.k8s.io", "v1", "customresourcedefinitions", "CustomResourceDefinition", namespaced=False)
KEX = ResourceDef("kopf.dev", "v1", "kopfexamples", "KopfExample", namespaced=True, shortnames=("kex",))
CLUSTER_PEERING = ResourceDef("kopf.dev", "v1", "clusterkopfpeerings", "ClusterKopfPeering", namespaced=False)
NS_PEERING = ResourceDef("kopf.dev", "v1", "kopfpeerings", "KopfPeering", namespaced=True)


class Watch:
    def __init__(self, cluster: "Cluster", res: ResourceDef, ns: str | None, session: "FakeSession"):
        self.cluster, self.res, self.ns, self.session = cluster, res, ns, session
        self.queue: asyncio.Queue[Any] = asyncio.Queue()
        self.closed = False
        self.last_delivery = 0.0
        self.delivered: list[tuple[float, str, str, str]] = []   # (time, type, name, rv)
        self.pending: list[tuple[float, Any]] = []

    def push(self, item: Any, delay: float = 0.0) -> None:
        """Deliver an item (event dict, or a control tuple) after `delay`, keeping per-watch FIFO
        order (asyncio's timer heap does not order equal deadlines, so one drain callback per
        deadline delivers everything due, in push order)."""
        loop = asyncio.get_event_loop()
        when = max(self.last_delivery, loop.time() + delay)
        self.last_delivery = when
        self.pending.append((when, item))
        loop.call_at(when, self._drain)

    def _drain(self) -> None:
        now = asyncio.get_event_loop().time()
        while self.pending and self.pending[0][0] <= now:
            _, item = self.pending.pop(0)
            if not self.closed:
                self.queue.put_nowait(item)

    def close(self) -> None:
        self.closed = True
        self.queue.put_nowait(("eof",))


class Cluster:
    def __init__(self, resources: list[ResourceDef] | None = None, latency: float = LATENCY):
        self.latency = latency
        self.resources: dict[tuple[str, str, str], ResourceDef] = {}
        self.rv = 100
        self.uid_counter = 0
        self.objects: dict[tuple[tuple[str, str, str], str | None, str], dict] = {}
        self.log: dict[tuple[str, str, str], list[tuple[int, str, dict]]] = {}      # per resource event log
        self.horizon: dict[tuple[str, str, str], int] = {}                           # compaction horizon (rv)
        self.history: dict[tuple[tuple[str, str, str], str | None, str], list[dict]] = {}  # every stored version
        self.watches: list[Watch] = []
        self.requests: list[dict] = []
        self.fault_rules: list[Callable[[dict], Fault | None]] = []
        self.before_request: list[Callable[[dict], None]] = []
        self.after_write: list[Callable[[dict, dict | None], None]] = []
        self.echo_delay: Callable[[Watch, str, dict], float] = lambda w, t, o: 0.0
        self.http_410 = False          # answer too-old watch requests with HTTP 410 instead of an ERROR event
        self.bookmarks = False
        for r in resources if resources is not None else [NAMESPACES, CRDS, KEX]:
            self.add_resource(r, announce=False)
        self.create_raw(NAMESPACES, None, "default", {})
        self.create_raw(NAMESPACES, None, "ns", {})

    # ---- cluster-side (foreign actor / scenario) API ------------------------------------------
    def now(self) -> float:
        try:
            return asyncio.get_event_loop().time()
        except RuntimeError:
            return 0.0

    def add_resource(self, r: ResourceDef, announce: bool = True) -> None:
        self.resources[r.key] = r
        self.log.setdefault(r.key, [])
        self.horizon.setdefault(r.key, 0)
        if announce and r is not CRDS and r is not NAMESPACES:
            self.create_raw(CRDS, None, f"{r.plural}.{r.group}", {"spec": {"group": r.group, "names": {"plural": r.plural, "kind": r.kind}}})

    def remove_resource(self, r: ResourceDef) -> None:
        for key in [k for k in self.objects if k[0] == r.key]:
            self._remove(key)
        self.resources.pop(r.key, None)
        crd = (CRDS.key, None, f"{r.plural}.{r.group}")
        if crd in self.objects:
            self._remove(crd)
        for w in list(self.watches):
            if w.res.key == r.key:
                w.close()

    def _next_rv(self) -> int:
        self.rv += 1
        return self.rv

    def _emit(self, res: ResourceDef, etype: str, body: dict) -> None:
        rv = int(body["metadata"]["resourceVersion"])
        snap = copy.deepcopy(body)
        self.log[res.key].append((rv, etype, snap))
        for w in self.watches:
            if not w.closed and w.res.key == res.key and (w.ns is None or w.ns == body["metadata"].get("namespace")):
                ev = {"type": etype, "object": copy.deepcopy(snap)}
                w.push(ev, self.echo_delay(w, etype, snap))

    def _store(self, key: tuple, body: dict, etype: str) -> dict:
        res = self.resources[key[0]]
        body["metadata"]["resourceVersion"] = str(self._next_rv())
        self.objects[key] = body
        self.history.setdefault(key, []).append({"t": self.now(), "event": etype, "body": copy.deepcopy(body)})
        self._emit(res, etype, body)
        return body

    def _remove(self, key: tuple) -> None:
        res = self.resources[key[0]]
        body = self.objects.pop(key)
        gone = copy.deepcopy(body)
        gone["metadata"]["resourceVersion"] = str(self._next_rv())
        self.history.setdefault(key, []).append({"t": self.now(), "event": "DELETED", "body": copy.deepcopy(gone)})
        self._emit(res, "DELETED", gone)

    def create_raw(self, res: ResourceDef, ns: str | None, name: str, body: dict) -> dict:
        key = (res.key, ns if res.namespaced else None, name)
        if key in self.objects:
            raise KeyError(f"{key} exists")
        self.uid_counter += 1
        body = copy.deepcopy(body)
        body.setdefault("apiVersion", res.api_version)
        body.setdefault("kind", res.kind)
        meta = body.setdefault("metadata", {})
        meta["name"] = name
        if res.namespaced:
            meta["namespace"] = ns
        meta["uid"] = f"uid-{name}-{self.uid_counter}"
        meta["creationTimestamp"] = simloop.WALL.now(tz=True).strftime("%Y-%m-%dT%H:%M:%SZ")
        meta.setdefault("generation", 1)
        self._normalise(body)
        return self._store(key, body, "ADDED")

    def get(self, res: ResourceDef, ns: str | None, name: str) -> dict | None:
        return self.objects.get((res.key, ns if res.namespaced else None, name))

    def edit(self, res: ResourceDef, ns: str | None, name: str, patch: dict) -> dict | None:
        """A foreign actor's merge-patch (bypasses the request log and faults)."""
        key = (res.key, ns if res.namespaced else None, name)
        if key not in self.objects:
            return None
        return self._apply_new(key, rfc.merge_patch(self.objects[key], patch), sub=None, foreign=True)

    def mutate(self, res: ResourceDef, ns: str | None, name: str, fn: Callable[[dict], None]) -> dict | None:
        key = (res.key, ns if res.namespaced else None, name)
        if key not in self.objects:
            return None
        new = copy.deepcopy(self.objects[key])
        fn(new)
        return self._apply_new(key, new, sub=None, foreign=True)

    def delete(self, res: ResourceDef, ns: str | None, name: str) -> None:
        key = (res.key, ns if res.namespaced else None, name)
        if key not in self.objects:
            return
        body = self.objects[key]
        if body["metadata"].get("finalizers"):
            if not body["metadata"].get("deletionTimestamp"):
                new = copy.deepcopy(body)
                new["metadata"]["deletionTimestamp"] = simloop.WALL.now(tz=True).strftime("%Y-%m-%dT%H:%M:%SZ")
                self._store(key, new, "MODIFIED")
        else:
            self._remove(key)

    def compact(self, res: ResourceDef, upto: int | None = None) -> None:
        """Forget watch history up to `upto` (default: everything so far): older `since` → 410."""
        self.horizon[res.key] = self.rv if upto is None else upto

    def break_watches(self, res: ResourceDef | None = None, how: str = "eof", session: Any = None, payload: Any = None) -> int:
        n = 0
        for w in list(self.watches):
            if w.closed or (res is not None and w.res.key != res.key) or (session is not None and w.session is not session):
                continue
            n += 1
            if how == "eof":
                w.push(("eof",))
            elif how == "conn":
                w.push(("conn",))
            elif how == "error":
                w.push({"type": "ERROR", "object": payload or _status(500, "InternalError", "boom")})
            elif how == "410":
                w.push({"type": "ERROR", "object": _status(410, "Expired", "too old resource version")})
            elif how == "garbage":
                w.push(("raw", payload or b"{not json\n"))
        return n

    # ---- object normalisation and write application ------------------------------------------
    @staticmethod
    def _normalise(body: dict) -> None:
        meta = body.setdefault("metadata", {})
        for f in ("labels", "annotations", "finalizers"):
            if f in meta and not meta[f]:
                del meta[f]

    @staticmethod
    def _strip_nulls(x: Any) -> Any:
        if isinstance(x, dict):
            return {k: Cluster._strip_nulls(v) for k, v in x.items() if v is not None}
        return x

    def _apply_new(self, key: tuple, new: dict, sub: str | None, foreign: bool = False) -> dict:
        """Store `new` as the next version of the object under `key`, honouring immutables, the
        status subresource split, and deletion by last-finalizer removal."""
        res = self.resources[key[0]]
        old = self.objects[key]
        new = self._strip_nulls(copy.deepcopy(new))
        om, nm = old["metadata"], new.setdefault("metadata", {})
        for f in ("name", "namespace", "uid", "creationTimestamp", "resourceVersion", "deletionTimestamp", "generation"):
            if f in om:
                nm[f] = om[f]
            else:
                nm.pop(f, None)
        if not foreign and "status" in res.subresources:
            if sub == "status":
                keep = copy.deepcopy(old)
                if "status" in new:
                    keep["status"] = new["status"]
                else:
                    keep.pop("status", None)
                new = keep
            else:
                if "status" in old:
                    new["status"] = copy.deepcopy(old["status"])
                else:
                    new.pop("status", None)
        self._normalise(new)
        if json.dumps(new, sort_keys=True) == json.dumps(old, sort_keys=True):
            return old      # a no-op write: no new version, no event
        if new.get("spec") != old.get("spec"):
            new["metadata"]["generation"] = int(om.get("generation", 1)) + 1
        if new["metadata"].get("deletionTimestamp") and not new["metadata"].get("finalizers"):
            # Last finalizer removed from a marked object: it is gone. The response shows the released
            # object with the version unchanged; the DELETED event carries the last stored state.
            self._remove(key)
            return new
        return self._store(key, new, "MODIFIED")

    # ---- HTTP-level entry point ----------------------------------------------------------------
    def _parse(self, url: str) -> tuple[ResourceDef | None, str | None, str | None, str | None, dict, str]:
        u = urllib.parse.urlparse(url)
        q = {k: v[0] for k, v in urllib.parse.parse_qs(u.query).items()}
        parts = [p for p in u.path.split("/") if p]
        return None, None, None, None, q, "/" + "/".join(parts)

    def route(self, path: str) -> tuple[ResourceDef, str | None, str | None, str | None] | None:
        parts = [p for p in path.split("/") if p]
        if not parts:
            return None
        if parts[0] == "api" and len(parts) >= 2:
            group, version, rest = "", parts[1], parts[2:]
        elif parts[0] == "apis" and len(parts) >= 3:
            group, version, rest = parts[1], parts[2], parts[3:]
        else:
            return None
        ns = None
        if len(rest) >= 3 and rest[0] == "namespaces" and (group, version, rest[2]) in self.resources:
            ns, rest = rest[1], rest[2:]
        if not rest:
            return None
        res = self.resources.get((group, version, rest[0]))
        if res is None:
            return None
        name = rest[1] if len(rest) > 1 else None
        sub = rest[2] if len(rest) > 2 else None
        return res, ns, name, sub

    def discovery(self, path: str) -> dict | None:
        parts = [p for p in path.split("/") if p]
        if parts == ["version"]:
            return {"major": "1", "minor": "30", "gitVersion": "v1.30.0-fake"}
        if parts == ["api"]:
            return {"kind": "APIVersions", "versions": ["v1"]}
        if parts == ["apis"]:
            groups: dict[str, set[str]] = {}
            for (g, v, _p) in self.resources:
                if g:
                    groups.setdefault(g, set()).add(v)
            return {"kind": "APIGroupList", "apiVersion": "v1", "groups": [
                {"name": g, "versions": [{"groupVersion": f"{g}/{v}", "version": v} for v in sorted(vs)],
                 "preferredVersion": {"groupVersion": f"{g}/{sorted(vs)[0]}", "version": sorted(vs)[0]}}
                for g, vs in sorted(groups.items())]}
        gv = None
        if len(parts) == 2 and parts[0] == "api":
            gv = ("", parts[1])
        elif len(parts) == 3 and parts[0] == "apis":
            gv = (parts[1], parts[2])
        if gv is not None:
            rs = [r for r in self.resources.values() if (r.group, r.version) == gv]
            if not rs:
                return None
            items = []
            for r in rs:
                items.append({"name": r.plural, "singularName": r.singular, "namespaced": r.namespaced, "kind": r.kind,
                              "verbs": list(r.verbs), "shortNames": list(r.shortnames), "categories": list(r.categories)})
                for s in r.subresources:
                    items.append({"name": f"{r.plural}/{s}", "singularName": "", "namespaced": r.namespaced, "kind": r.kind,
                                  "verbs": ["get", "patch", "update"]})
            return {"kind": "APIResourceList", "apiVersion": "v1",
                    "groupVersion": f"{gv[0]}/{gv[1]}" if gv[0] else gv[1], "resources": items}
        return None


class FakeContent:
    def __init__(self, response: "FakeResponse"):
        self.response = response

    async def iter_chunked(self, n: int):  # noqa: ANN201
        r = self.response
        if r.watch is None:
            if r.body_bytes:
                yield r.body_bytes
            return
        loop = asyncio.get_running_loop()
        while True:
            if r.closed:
                raise aiohttp.ClientConnectionError("Connection closed")
            timeout = None
            if r.deadline is not None:
                timeout = r.deadline - loop.time()
                if timeout <= 0:
                    r.watch.closed = True
                    raise asyncio.TimeoutError()
            getter = asyncio.ensure_future(r.watch.queue.get())
            closer = asyncio.ensure_future(r.closed_event.wait())
            try:
                done, _ = await asyncio.wait({getter, closer}, timeout=timeout, return_when=asyncio.FIRST_COMPLETED)
            finally:
                for f in (getter, closer):
                    if not f.done():
                        f.cancel()
            if getter in done:
                item = getter.result()
            elif closer in done:
                r.watch.closed = True
                raise aiohttp.ClientConnectionError("Connection closed")
            else:
                r.watch.closed = True
                raise asyncio.TimeoutError()
            if isinstance(item, tuple):
                if item[0] == "eof":
                    r.watch.closed = True
                    return
                if item[0] == "conn":
                    r.watch.closed = True
                    raise aiohttp.ClientConnectionError("Connection reset by fake peer")
                if item[0] == "raw":
                    yield item[1]
                    continue
            obj = item.get("object", {})
            r.watch.delivered.append((loop.time(), item.get("type"), obj.get("metadata", {}).get("name"),
                                      obj.get("metadata", {}).get("resourceVersion")))
            yield (json.dumps(item) + "\n").encode("utf-8")


class FakeResponse:
    def __init__(self, status: int, payload: Any = None, headers: dict | None = None, watch: Watch | None = None,
                 deadline: float | None = None, text: str | None = None):
        self.status = status
        self.headers = {"Content-Type": "application/json", **(headers or {})}
        self.payload = payload
        self._text = text
        self.body_bytes = (json.dumps(payload).encode() if text is None else text.encode())
        self.watch = watch
        self.deadline = deadline
        self.closed = False
        self.closed_event = asyncio.Event()
        self.content = FakeContent(self)

    async def json(self, **_: Any) -> Any:
        if self._text is not None:
            raise aiohttp.ContentTypeError(None, (), message="not json")  # type: ignore[arg-type]
        return copy.deepcopy(self.payload)

    async def text(self, **_: Any) -> str:
        return self._text if self._text is not None else json.dumps(self.payload)

    async def read(self) -> bytes:
        return self.body_bytes

    def raise_for_status(self) -> None:
        if self.status >= 400:
            self.release()
            raise aiohttp.ClientResponseError(None, (), status=self.status, message="fake", headers=None)  # type: ignore[arg-type]

    def release(self) -> None:
        self.close()

    def close(self) -> None:
        if not self.closed:
            self.closed = True
            self.closed_event.set()
            if self.watch is not None:
                self.watch.closed = True

    async def __aenter__(self) -> "FakeResponse":
        return self

    async def __aexit__(self, *a: Any) -> None:
        self.close()


class FakeSession:
    """What kopf sees as `aiohttp.ClientSession` for one operator incarnation."""

    def __init__(self, cluster: Cluster, identity: str = "op"):
        self.cluster = cluster
        self.identity = identity
        self.headers: dict[str, str] = {}
        self.closed = False
        self.dead = False          # a killed incarnation: every new request fails, streams break
        self.responses: list[FakeResponse] = []

    async def close(self) -> None:
        self.closed = True
        for r in self.responses:
            r.close()

    def kill(self) -> None:
        self.dead = True
        for r in self.responses:
            r.close()

    async def request(self, method: str, url: str, json: Any = None, headers: dict | None = None,  # noqa: A002
                      timeout: Any = None, **_: Any) -> FakeResponse:
        if self.closed:
            raise RuntimeError("Session is closed")
        c = self.cluster
        loop = asyncio.get_running_loop()
        method = method.upper()
        u = urllib.parse.urlparse(url)
        query = {k: v[0] for k, v in urllib.parse.parse_qs(u.query).items()}
        path = u.path
        req = {"t": loop.time(), "wall": simloop.WALL.now_s(), "who": self.identity, "method": method, "path": path, "query": query,
               "ctype": (headers or {}).get("Content-Type"), "payload": copy.deepcopy(json), "response": None}
        c.requests.append(req)
        if self.dead:
            req["response"] = "dead-session"
            raise aiohttp.ClientConnectionError("fake: killed incarnation")
        for hook in list(c.before_request):
            hook(req)
        fault = None
        for rule in list(c.fault_rules):
            fault = rule(req)
            if fault is not None:
                break
        if c.latency:
            await asyncio.sleep(c.latency)
        if self.dead:
            req["response"] = "dead-session"
            raise aiohttp.ClientConnectionError("fake: killed incarnation")
        if fault is not None:
            req["fault"] = repr(fault)
            if fault.kind == "conn-before":
                req["response"] = "conn-error"
                raise aiohttp.ClientConnectionError("fake: connection refused")
            if fault.kind == "timeout":
                req["response"] = "timeout"
                total = getattr(timeout, "total", None)
                if total:
                    await asyncio.sleep(total)
                raise asyncio.TimeoutError()
            if fault.kind == "status":
                req["response"] = fault.status
                det = fault.details
                return self._track(FakeResponse(fault.status, _status(fault.status, "Injected", f"injected {fault.status}", det),
                                                headers=fault.headers))
        resp = self._serve(req, method, path, query, json, headers or {}, timeout)
        req["response"] = resp.status
        if resp.status < 300 and resp.watch is None:
            req["result"] = copy.deepcopy(resp.payload) if method != "GET" else None
        if fault is not None and fault.kind == "conn-after":
            req["response"] = "conn-error-after-apply"
            resp.close()
            raise aiohttp.ClientConnectionError("fake: connection lost after the server applied the request")
        return self._track(resp)

    def _track(self, r: FakeResponse) -> FakeResponse:
        self.responses = [x for x in self.responses if not x.closed][-200:]
        self.responses.append(r)
        return r

    def _serve(self, req: dict, method: str, path: str, query: dict, payload: Any, headers: dict, timeout: Any) -> FakeResponse:
        c = self.cluster
        loop = asyncio.get_running_loop()
        if method == "GET":
            d = c.discovery(path)
            if d is not None:
                return FakeResponse(200, d)
        routed = c.route(path)
        if routed is None:
            return FakeResponse(404, _status(404, "NotFound", f"no route {path}"))
        res, ns, name, sub = routed
        nskey = ns if res.namespaced else None
        if name is None:
            if method == "GET" and query.get("watch") in ("true", "1"):
                since = query.get("resourceVersion")
                if since is not None and int(since) < c.horizon[res.key]:
                    if c.http_410:
                        return FakeResponse(410, _status(410, "Expired", f"too old resource version: {since}"))
                    w = Watch(c, res, nskey, self)
                    w.push({"type": "ERROR", "object": _status(410, "Expired", f"too old resource version: {since}")})
                    w.push(("eof",))
                    return FakeResponse(200, None, watch=w)
                w = Watch(c, res, nskey, self)
                if since is not None:
                    for rv, etype, body in c.log[res.key]:
                        if rv > int(since) and (nskey is None or body["metadata"].get("namespace") == nskey):
                            w.push({"type": etype, "object": copy.deepcopy(body)}, c.echo_delay(w, etype, body))
                c.watches.append(w)
                c.watches[:] = [x for x in c.watches if not x.closed]
                if query.get("timeoutSeconds"):
                    loop.call_later(float(query["timeoutSeconds"]), w.push, ("eof",))
                total = getattr(timeout, "total", None)
                req["watch"] = w
                return FakeResponse(200, None, watch=w, deadline=(loop.time() + total) if total else None)
            if method == "GET":
                items = [copy.deepcopy(b) for (rk, n, _nm), b in sorted(c.objects.items(), key=lambda kv: (str(kv[0][1]), kv[0][2]))
                         if rk == res.key and (nskey is None or n == nskey)]
                return FakeResponse(200, {"kind": res.kind + "List", "apiVersion": res.api_version,
                                          "metadata": {"resourceVersion": str(c.rv)}, "items": items})
            if method == "POST":
                nm = (payload or {}).get("metadata", {}).get("name") or f"gen-{c.uid_counter + 1}"
                try:
                    body = c.create_raw(res, nskey, nm, payload or {})
                except KeyError:
                    return FakeResponse(409, _status(409, "AlreadyExists"))
                return FakeResponse(201, copy.deepcopy(body))
            return FakeResponse(405, _status(405, "MethodNotAllowed"))
        key = (res.key, nskey, name)
        if key not in c.objects:
            return FakeResponse(404, _status(404, "NotFound", f"{res.plural} {name!r} not found"))
        if sub is not None and sub not in res.subresources:
            return FakeResponse(404, _status(404, "NotFound", f"no subresource {sub}"))
        cur = c.objects[key]
        req["target_uid"] = cur["metadata"]["uid"]
        if method == "GET":
            return FakeResponse(200, copy.deepcopy(cur))
        if method == "DELETE":
            c.delete(res, nskey, name)
            return FakeResponse(200, copy.deepcopy(cur))
        if method == "PATCH":
            ctype = headers.get("Content-Type", "")
            if ctype.startswith("application/merge-patch+json"):
                if not isinstance(payload, dict):
                    return FakeResponse(400, _status(400, "BadRequest", "merge patch must be an object"))
                # optimistic concurrency, as the real API server does it: a merge-patch whose body names a
                # `metadata.resourceVersion` other than the stored one is refused with 409 Conflict, nothing applied
                # (kopf: only peering.clean() sends one, since 054d47d)
                _pm = payload.get("metadata")
                _prv = _pm.get("resourceVersion") if isinstance(_pm, dict) else None
                if _prv is not None and str(_prv) != str(cur["metadata"].get("resourceVersion")):
                    req["precondition_failed"] = True
                    return FakeResponse(409, _status(409, "Conflict", "the object has been modified; please apply "
                                                     "your changes to the latest version and try again"))
                new = rfc.merge_patch(cur, payload)
            elif ctype.startswith("application/json-patch+json"):
                try:
                    new = rfc.apply_json_patch(cur, payload)
                except rfc.TestFailed as e:
                    return FakeResponse(422, _status(422, "Invalid", str(e)))
                except rfc.PatchError as e:
                    return FakeResponse(422, _status(422, "Invalid", str(e)))
            else:
                return FakeResponse(415, _status(415, "UnsupportedMediaType", ctype))
            out = c._apply_new(key, new, sub)
            for hook in list(c.after_write):
                hook(req, out)
            return FakeResponse(200, copy.deepcopy(out))
        return FakeResponse(405, _status(405, "MethodNotAllowed"))
